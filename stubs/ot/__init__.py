# stub of POT for offline import
__version__ = "stub"
def emd(*a, **k):
    raise NotImplementedError("ot stub")
