import sys, io, contextlib, random as _r, json, collections
sys.path[:0] = ['/repo/src', __import__('os').path.join(__import__('os').path.dirname(__import__('os').path.abspath(__file__)),'stubs')]
from fractions import Fraction as F
from votekit import Ballot, PreferenceProfile
import votekit.utils as U, votekit.elections.transfers as T
from votekit.elections import *

class Fac:
    def __init__(self, mode): self.mode=mode; self.log=[]
    def _perm(self, pop):
        s = sorted(pop)
        if self.mode=='asc': return s
        if self.mode=='desc': return s[::-1]
        if self.mode=='rot': return s[1:]+s[:1]
    def sample(self, pop, k):
        out=self._perm(pop)[:k]; self.log.append(('sample', tuple(sorted(pop)), k)); return out
def install(mode):
    f=Fac(mode); U.random=f; T.random=f; return f

def canon(e):
    return [[s.round_number, [sorted(x) for x in s.remaining], [sorted(x) for x in s.elected], [sorted(x) for x in s.eliminated],
             sorted((k,str(v)) for k,v in s.scores.items()), sorted((sorted(k), [sorted(x) for x in v]) for k,v in s.tiebreaks.items())] for s in e.election_states]
def run(mk, mode):
    f=install(mode)
    try:
        with contextlib.redirect_stdout(io.StringIO()): e=mk()
        return ('ok', canon(e), f.log)
    except Exception as ex:
        return ('exc', type(ex).__name__+':'+str(ex)[:60], f.log)

rng=_r.Random(11); names=list('ABCDE')
stats=collections.Counter(); bad=[]
for i in range(600):
    n=rng.randint(2,5); cs=names[:n]; bl=[]
    for _ in range(rng.randint(1,6)):
        k=rng.randint(1,n); bl.append(Ballot(ranking=tuple(frozenset({c}) for c in rng.sample(cs,k)), weight=rng.choice([1,1,2,2,3])))
    p=PreferenceProfile(ballots=tuple(bl), candidates=tuple(cs)); m=rng.randint(1,n)
    sim=rng.random()<0.5
    kinds={'STV': lambda tb: (lambda: STV(p,m=m,simultaneous=sim,tiebreak=tb)), 'Plur': lambda tb: (lambda: Plurality(p,m=m,tiebreak=tb)), 'Borda': lambda tb:(lambda: Borda(p,m=m,tiebreak=tb)),
           'Alaska': lambda tb:(lambda: Alaska(p,m_1=max(m,min(2,n)),m_2=min(m,2) if max(m,min(2,n))>=min(m,2) else 1,simultaneous=sim,tiebreak=tb))}
    for name, mkf in kinds.items():
        # C01 twin oracle
        rn = run(mkf(None),'asc'); rr = run(mkf('random'),'asc')
        if rn[0]=='exc':
            stats[name+':exc:'+rn[1].split(':')[0]]+=1
            if rn[1].startswith('ValueError'):
                # twin must record an elect-boundary tiebreak
                ok = rr[0]=='ok' and any(st[5] and any(len(x) for x in st[2]) for st in rr[1])
                if not ok: bad.append(('C01 illegit ValueError', name, i, rn[1], rr[0]))
        else:
            if rr[0]=='ok':
                # if twin has elect-boundary tiebreak -> None run should have raised
                elect_tb = any(st[5] and any(len(x) for x in st[2]) and not any(len(x) for x in st[3]) for st in rr[1])
                if elect_tb: bad.append(('C01 returned despite tie', name, i))
        # C10: two schedules
        for tb in ('random','borda','first_place'):
            a=run(mkf(tb),'asc'); d=run(mkf(tb),'desc')
            if a[0]!='ok' or d[0]!='ok':
                stats[name+':tbexc']+=1; continue
            if a[1]!=d[1]:
                stats[name+':differs']+=1
                r=next(j for j,(x,y) in enumerate(zip(a[1],d[1])) if x!=y)
                if not (a[1][r][5] and d[1][r][5] and [k for k,_ in a[1][r][5]]==[k for k,_ in d[1][r][5]]):
                    bad.append(('C10 unsurfaced', name, i, tb, r))
            else:
                stats[name+':same']+=1
                if a[2] and not any(st[5] for st in a[1]): stats[name+':draw-without-record']+=1
print(collections.Counter((b[0],b[1]) for b in bad))
