import sys, io, contextlib, random as _r, collections, copy, traceback
sys.path[:0] = ['/repo/src', __import__('os').path.join(__import__('os').path.dirname(__import__('os').path.abspath(__file__)),'stubs')]
from fractions import Fraction as F
from votekit import Ballot, PreferenceProfile
import votekit.utils as U, votekit.elections.transfers as T
from votekit.elections import *

class Trap:
    def __init__(self): self.n=0
    def sample(self, pop, k):
        if len(pop)>1: self.n+=1
        return sorted(pop)[:k]

def snap(e):
    return [(s.round_number, s.remaining, s.elected, s.eliminated, dict(s.scores), {k:v for k,v in s.tiebreaks.items()}) for s in e.election_states]
def flat(t): return [c for s in t for c in s]

rng=_r.Random(33); names=list('ABCDE'); stats=collections.Counter(); bad=collections.Counter(); ex={}
for i in range(1500):
    n=rng.randint(1,5); cs=names[:n]; bl=[]
    for _ in range(rng.randint(1,6)):
        k=rng.randint(1,n); bl.append(Ballot(ranking=tuple(frozenset({c}) for c in rng.sample(cs,k)), weight=rng.choice([1,2,3,F(3,2)])))
    p=PreferenceProfile(ballots=tuple(bl), candidates=tuple(cs)); m=rng.randint(1,n)
    rules={'STV':lambda: STV(p,m=m,simultaneous=rng.random()<.5,tiebreak='borda'),'IRV':lambda: IRV(p,tiebreak='borda'),'SeqRCV':lambda: SequentialRCV(p,m=m,simultaneous=False,tiebreak='borda'),
           'Plurality':lambda: Plurality(p,m=m,tiebreak='borda'),'Borda':lambda: Borda(p,m=m,tiebreak='first_place'),'TopTwo':lambda: TopTwo(p,tiebreak='borda'),
           'Alaska':lambda: Alaska(p,m_1=min(n,max(2,m)),m_2=min(m,min(n,max(2,m))),tiebreak='borda'),'DS':lambda: DominatingSets(p),'CondoBorda':lambda: CondoBorda(p,m=m)}
    name=rng.choice(list(rules)); tr=Trap(); U.random=tr; T.random=tr
    try:
        with contextlib.redirect_stdout(io.StringIO()): e=rules[name]()
    except Exception as x:
        stats['ctor-exc']+=1; continue
    if tr.n: stats['random-path']+=1; continue
    S0=snap(e); R=len(S0)
    stats['det']+=1
    for r in range(R):
        # model
        elected=[s for st in S0[:r+1] for s in st[2] if st[2]!=(frozenset(),)]
        rem=set(flat(S0[r][1]))
        try:
            with contextlib.redirect_stdout(io.StringIO()): pr=e.get_profile(r)
        except Exception as x:
            bad[(name,'get_profile exc '+type(x).__name__)]+=1; ex.setdefault((name,'exc'),(i,r)); continue
        if snap(e)!=S0: bad[(name,'impure')]+=1
        if set(pr.candidates)!=rem:
            bad[(name,'cands')]+=1; ex.setdefault((name,'cands'),(i,r,pr.candidates,rem, m, [(tuple(next(iter(s)) for s in b.ranking),str(b.weight)) for b in p.ballots]))
        elif e.score_function:
            try:
                if dict(e.score_function(pr))!=S0[r][4]: bad[(name,'rescoring')]+=1; ex.setdefault((name,'rescoring'),(i,r,dict(e.score_function(pr)),S0[r][4]))
            except Exception as x: bad[(name,'rescoring exc')]+=1
        if tuple(e.get_elected(r))!=tuple(elected): bad[(name,'elected')]+=1
        if e.get_elected(r-R)!=e.get_elected(r): bad[(name,'neg')]+=1
    for q in (R, -R-1):
        for fn in (e.get_profile,e.get_elected,e.get_eliminated,e.get_remaining,e.get_ranking,e.get_status_df,e.get_step):
            try: fn(q); bad[(name,'no IndexError '+fn.__name__)]+=1
            except IndexError: pass
            except Exception as x: bad[(name,'wrong exc '+fn.__name__+' '+type(x).__name__)]+=1
print(stats); print(bad); 
for k,v in ex.items(): print(k, v)
