import sys, os, io, contextlib, random as _r, collections
sys.path[:0] = ['/repo/src', os.path.join(os.path.dirname(os.path.abspath(__file__)),'stubs')]
from fractions import Fraction as F
from votekit import Ballot, PreferenceProfile
import votekit.utils as U, votekit.elections.transfers as T
from votekit.elections import *
from votekit.utils import remove_cand

class Fac:
    """stateless directed policy: outcome depends only on the sorted population"""
    def __init__(self, mode): self.mode=mode; self.n=0
    def sample(self, pop, k):
        self.n+=1
        try: s=sorted(pop)
        except TypeError: s=sorted(pop, key=lambda b:(tuple(tuple(sorted(x)) for x in b.ranking), b.weight))
        if self.mode=='desc': s=s[::-1]
        return s[:k]
def canon(states, shift=0):
    return [[s.round_number+shift,[sorted(x) for x in s.remaining],[sorted(x) for x in s.elected],[sorted(x) for x in s.eliminated],sorted((k,str(v)) for k,v in s.scores.items()),
             sorted((sorted(k),[sorted(x) for x in v]) for k,v in s.tiebreaks.items())] for s in states]
def run(mk, mode):
    f=Fac(mode); U.random=f; T.random=f
    try:
        with contextlib.redirect_stdout(io.StringIO()): e=mk()
        return ('ok', e)
    except Exception as x: return ('exc', type(x).__name__)

rng=_r.Random(13); names=list('ABCDEF'); stats=collections.Counter(); bad=[]
for i in range(1200):
    n=rng.randint(2,6); cs=names[:n]; bl=[]
    for _ in range(rng.randint(1,7)):
        k=rng.randint(1,n); bl.append(Ballot(ranking=tuple(frozenset({c}) for c in rng.sample(cs,k)), weight=rng.choice([1,1,2,3,F(3,2)])))
    p=PreferenceProfile(ballots=tuple(bl), candidates=tuple(cs)); mode=rng.choice(['asc','desc'])
    tb=rng.choice([None,'random','borda','first_place']); quota=rng.choice(['droop','hare']); sim=rng.random()<.5
    m=rng.randint(1,n)
    # IRV == STV m=1
    a=run(lambda: IRV(p,quota=quota,tiebreak=tb),mode); b=run(lambda: STV(p,m=1,quota=quota,tiebreak=tb),mode)
    ok = (a[0]==b[0]) and (a[0]=='exc' and a[1]==b[1] or a[0]=='ok' and canon(a[1].election_states)==canon(b[1].election_states))
    stats['irv',ok]+=1
    if not ok: bad.append(('irv',i))
    # SNTV == Plurality
    a=run(lambda: SNTV(p,m=m,tiebreak=tb),mode); b=run(lambda: Plurality(p,m=m,tiebreak=tb),mode)
    ok = (a[0]==b[0]) and (a[0]=='exc' and a[1]==b[1] or a[0]=='ok' and canon(a[1].election_states)==canon(b[1].election_states))
    stats['sntv',ok]+=1
    if not ok: bad.append(('sntv',i))
    # SeqRCV == STV with full-weight transfer
    fw=lambda w,fpv,bs,th: remove_cand(w, tuple(bs))
    a=run(lambda: SequentialRCV(p,m=m,quota=quota,simultaneous=sim,tiebreak=tb),mode); b=run(lambda: STV(p,m=m,transfer=fw,quota=quota,simultaneous=sim,tiebreak=tb),mode)
    ok = (a[0]==b[0]) and (a[0]=='exc' and a[1]==b[1] or a[0]=='ok' and canon(a[1].election_states)==canon(b[1].election_states))
    stats['seq',ok]+=1
    if not ok: bad.append(('seq',i))
    # Alaska
    m1=rng.randint(1,n); m2=rng.randint(1,m1)
    a=run(lambda: Alaska(p,m_1=m1,m_2=m2,quota=quota,simultaneous=sim,tiebreak=tb),mode)
    pl=run(lambda: Plurality(p,m=m1,tiebreak=tb),mode)
    if pl[0]=='exc':
        ok = a[0]=='exc' and a[1]==pl[1]; stats['alaska-stage1-exc',ok]+=1
        if not ok: bad.append(('alaska1',i,a,pl))
    else:
        losers=[c for s in pl[1].get_remaining() for c in s]
        red=remove_cand(losers,p)
        st=run(lambda: STV(red,m=m2,quota=quota,simultaneous=sim,tiebreak=tb),mode)
        if st[0]=='exc':
            ok = a[0]=='exc' and a[1]==st[1]; stats['alaska-stage2-exc',ok]+=1
            if not ok: bad.append(('alaska2',i,a[0],st))
        else:
            ok = a[0]=='ok' and canon(a[1].election_states[2:])==canon(st[1].election_states[1:],shift=1) and a[1].get_elected()==st[1].get_elected() \
                 and [sorted(x) for x in a[1].election_states[1].remaining]==[sorted(x) for x in pl[1].get_elected()] and [sorted(x) for x in a[1].election_states[1].eliminated]==[sorted(x) for x in pl[1].get_remaining()]
            stats['alaska',ok]+=1
            if not ok: bad.append(('alaska',i,m1,m2))
    # TopTwo independent oracle (only when unambiguous)
    a=run(lambda: TopTwo(p,tiebreak=tb),mode)
    fpv=collections.defaultdict(F)
    for bb in p.ballots: fpv[next(iter(bb.ranking[0]))]+=bb.weight
    order=sorted(cs,key=lambda c:-fpv[c])
    if n>=3 and fpv[order[1]]==fpv[order[2]]: stats['toptwo-ambiguous']+=1
    elif n>=2:
        x,y=order[0],order[1]; hx=hy=F(0)
        for bb in p.ballots:
            r=[next(iter(s)) for s in bb.ranking if next(iter(s)) in (x,y)]
            if r: 
                if r[0]==x: hx+=bb.weight
                else: hy+=bb.weight
        if hx==hy: stats['toptwo-final-tie']+=1
        else:
            w = x if hx>hy else y
            ok = a[0]=='ok' and a[1].get_elected()==(frozenset({w}),)
            # a ValueError is legit only if top-2 boundary tie... (fpv[x]==fpv[y] is not a boundary tie: both advance)
            stats['toptwo',ok]+=1
            if not ok: bad.append(('toptwo',i,a[0] if a[0]=='exc' else a[1].get_elected(), w, dict(fpv), tb))
print(stats); print(len(bad), bad[:6])
