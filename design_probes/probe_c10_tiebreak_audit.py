import sys, os, io, contextlib, random as _r, collections
sys.path[:0] = ['/repo/src', os.path.join(os.path.dirname(os.path.abspath(__file__)),'stubs')]
from fractions import Fraction as F
from votekit import Ballot, PreferenceProfile
import votekit.utils as U, votekit.elections.transfers as T
from votekit.elections import *
import votekit.models as M

class Fac:
    def __init__(self, mode): self.mode=mode; self.log=[]
    def sample(self, pop, k):
        s=sorted(pop); s = s[::-1] if self.mode=='desc' else s
        self.log.append((CUR[0], frozenset(pop))); return s[:k]
rec=[]
CUR=[0]
def wrap(cls):
    orig=cls._run_step
    def w(self, profile, prev_state, store_states=False):
        if store_states and type(self) is cls: CUR[0]=prev_state.round_number+1
        out=orig(self, profile, prev_state, store_states)
        if store_states and type(self) is cls: rec.append((profile, prev_state, out))
        return out
    cls._run_step=w
for c in (STV, Plurality, Borda): wrap(c)

def fpv(profile):
    t={c:F(0) for c in profile.candidates}
    for b in profile.ballots: t[next(iter(b.ranking[0]))]+=b.weight
    return t
def borda(profile):
    n=len(profile.candidates); t={c:F(0) for c in profile.candidates}
    for b in profile.ballots:
        r=[next(iter(s)) for s in b.ranking]
        for i,c in enumerate(r): t[c]+=(n-i)*b.weight
        rest=[c for c in profile.candidates if c not in r]
        if rest:
            pts=sum(range(1,n-len(r)+1)); 
            for c in rest: t[c]+=F(pts,len(rest))*b.weight
    return t

rng=_r.Random(17); names=list('ABCDE'); stats=collections.Counter(); bad=[]
for i in range(1500):
    n=rng.randint(2,5); cs=names[:n]; bl=[]
    for _ in range(rng.randint(1,6)):
        k=rng.randint(1,n); bl.append(Ballot(ranking=tuple(frozenset({c}) for c in rng.sample(cs,k)), weight=rng.choice([1,1,2,2,3])))
    p=PreferenceProfile(ballots=tuple(bl), candidates=tuple(cs)); m=rng.randint(1,n); tb=rng.choice(['random','borda','first_place'])
    kind=rng.choice(['STVsim','STV1','Plur','Borda']); mode=rng.choice(['asc','desc'])
    f=Fac(mode); U.random=f; T.random=f; rec.clear()
    try:
        with contextlib.redirect_stdout(io.StringIO()):
            e={'STVsim':lambda: STV(p,m=m,tiebreak=tb),'STV1':lambda: STV(p,m=m,simultaneous=False,tiebreak=tb),'Plur':lambda: Plurality(p,m=m,tiebreak=tb),'Borda':lambda: Borda(p,m=m,tiebreak=tb)}[kind]()
    except Exception as x: stats['exc']+=1; continue
    p0fpv=fpv(p); alldraws=list(f.log)
    for r,(pin,prev,pout) in enumerate(rec, start=1):
        s=e.election_states[r]
        deciding = borda(pin) if kind=='Borda' else fpv(pin)
        draws=[d for rr,d in alldraws if rr==r]
        for S,order in s.tiebreaks.items():
            stats['tiebreaks']+=1
            o=[next(iter(x)) for x in order]
            if len(S)<2 or sorted(o)!=sorted(S) or any(len(x)!=1 for x in order): bad.append((i,'shape')); continue
            if len({deciding[c] for c in S})!=1: bad.append((i,kind,'not tied on deciding tally',r)); continue
            elim=[c for x in s.eliminated for c in x]; el=[c for x in s.elected for c in x]
            if elim:   # STV elimination tie
                if o[-1]!=elim[0]: bad.append((i,'elim not last'))
                key=p0fpv
            else:
                sel=[c for c in o if c in el]; 
                if not sel or len(sel)==len(o): bad.append((i,kind,'does not straddle',r,S,el))
                if o[:len(sel)]!=sel: bad.append((i,'selected not first'))
                key = None if tb=='random' else (borda(pin) if tb=='borda' else fpv(pin))
            if key is not None:
                if any(key[a]<key[b] for a,b in zip(o,o[1:])): bad.append((i,kind,tb,'order not by tiebreak score'))
                groups=collections.Counter(key[c] for c in S)
                need_draw=[frozenset(c for c in S if key[c]==v) for v,cnt in groups.items() if cnt>1]
                for g in need_draw:
                    if g not in draws: bad.append((i,'missing draw for residual tie'))
                # every draw over a subset of S must be one of need_draw
                for d in draws:
                    if d<=S and d not in need_draw and d!=S: bad.append((i,'unneeded draw',d))
                if not need_draw: stats['resolved-without-draw']+=1
                else: stats['residual-random']+=1
            else: stats['random-tb']+=1
print(stats); print(len(bad), bad[:6])
