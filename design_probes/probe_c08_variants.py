import sys, io, contextlib, random as _r, collections
sys.path[:0] = ['/repo/src', __import__('os').path.join(__import__('os').path.dirname(__import__('os').path.abspath(__file__)),'stubs')]
from fractions import Fraction as F
from votekit import Ballot, PreferenceProfile
import votekit.utils as U, votekit.elections.transfers as T
from votekit.elections import *
from votekit.graphs import PairwiseComparisonGraph

class Trap:
    def __init__(self): self.n=0
    def sample(self, pop, k):
        if len(pop)>1: self.n+=1
        return sorted(pop)[:k]
def canon(e, inv):
    f=lambda s: sorted(inv[c] for c in s)
    return [[s.round_number,[f(x) for x in s.remaining],[f(x) for x in s.elected],[f(x) for x in s.eliminated],sorted((inv[k],str(v)) for k,v in s.scores.items()),
             sorted((f(k),[f(x) for x in v]) for k,v in s.tiebreaks.items())] for s in e.election_states]
pool=['zeta','Alpha 2','b','Ω','a,b','"q"','Z','m m','0x','é']
rng=_r.Random(44); names=list('ABCDE'); stats=collections.Counter(); bad=[]
def build(cands, ballots):  # ballots: list of (ranking list of lists, weight)
    return PreferenceProfile(ballots=tuple(Ballot(ranking=tuple(frozenset(pos) for pos in r), weight=w) for r,w in ballots), candidates=tuple(cands))
for i in range(800):
    n=rng.randint(1,5); cs=names[:n]; tied=rng.random()<0.3
    bl=[]
    for _ in range(rng.randint(1,6)):
        k=rng.randint(1,n); perm=rng.sample(cs,k)
        if tied and k>=2:
            cut=rng.randint(1,k-1); r=[[c] for c in perm[:cut-1]]+[perm[cut-1:cut+1]]+[[c] for c in perm[cut+1:]]
        else: r=[[c] for c in perm]
        bl.append((r, rng.choice([1,2,3,F(3,2),F(2,3)])))
    m=rng.randint(1,n)
    det_rules={'Plurality':lambda p: Plurality(p,m=m,tiebreak='borda'),'Borda':lambda p: Borda(p,m=m,tiebreak='first_place'),'CondoBorda':lambda p: CondoBorda(p,m=m),'DS':lambda p: DominatingSets(p)}
    if not tied:
        det_rules.update({'STV':lambda p: STV(p,m=m,tiebreak='borda'),'STV1':lambda p: STV(p,m=m,simultaneous=False,tiebreak='first_place'),'TopTwo':lambda p: TopTwo(p,tiebreak='borda'),
                          'Alaska':lambda p: Alaska(p,m_1=min(n,max(2,m)),m_2=min(m,min(n,max(2,m))),tiebreak='borda')})
    name=rng.choice(list(det_rules))
    # variants
    sigma=dict(zip(cs, rng.sample(pool,n))); ident={c:c for c in cs}
    def variant(kind):
        if kind=='base': return cs, bl, ident
        if kind=='rename': return [sigma[c] for c in cs], [([[sigma[c] for c in pos] for pos in r],w) for r,w in bl], {v:k for k,v in sigma.items()}
        if kind=='perm': b2=bl[:]; rng.shuffle(b2); c2=cs[:]; rng.shuffle(c2); return c2,b2,ident
        if kind=='split':
            b2=[]
            for r,w in bl:
                a=F(rng.randint(1,4),5)*w; b2+= [(r,a),(r,w-a)]
            rng.shuffle(b2); return cs,b2,ident
    outs={}
    for kind in ('base','rename','perm','split'):
        c2,b2,inv=variant(kind); tr=Trap(); U.random=tr; T.random=tr
        try:
            with contextlib.redirect_stdout(io.StringIO()): e=det_rules[name](build(c2,b2))
            outs[kind]=('rand',) if tr.n else ('ok',canon(e,inv))
        except Exception as x: outs[kind]=('exc',type(x).__name__)
        # utilities
    if any(o[0]=='rand' for o in outs.values()): stats['rand']+=1; continue
    stats['cmp']+=1
    for kind in ('rename','perm','split'):
        if outs[kind]!=outs['base']: bad.append((i,name,kind,outs['base'][0],outs[kind][0]))
print(stats, len(bad), bad[:6])
