import sys, itertools, math
sys.path[:0] = ['/repo/src', __import__('os').path.join(__import__('os').path.dirname(__import__('os').path.abspath(__file__)),'stubs')]
from votekit import Ballot, PreferenceProfile, PreferenceInterval
import votekit.ballot_generator as bg

class ScriptRandom:
    """facade for the `random` module inside votekit.ballot_generator"""
    def __init__(self): self.script=[]; self.log=[]
    def choices(self, pop, weights=None, k=1):
        v = self.script.pop(0); self.log.append(('choices', len(pop), k, v)); return v
    def random(self):
        v = self.script.pop(0); self.log.append(('random', v)); return v
fac = ScriptRandom()
bg.random = fac

iv = {'A':0.5,'B':0.3,'C':0.2}
gen = bg.name_BradleyTerry(candidates=list(iv), pref_intervals_by_bloc={'X':{'X':PreferenceInterval(iv)}}, bloc_voter_prop={'X':1}, cohesion_parameters={'X':{'X':1}})
states = list(itertools.permutations(iv))
def step(state, j, u):
    fac.script=[[j], u]
    pp = gen._BT_mcmc(1, iv, Ballot(ranking=tuple(frozenset({c}) for c in state)))
    (b,) = pp.ballots
    return tuple(next(iter(s)) for s in b.ranking)
def accept_prob(state, j):
    # binary search smallest u that rejects
    swapped = list(state); swapped[j],swapped[j+1]=swapped[j+1],swapped[j]; swapped=tuple(swapped)
    if step(state,j,0.0)!=swapped: return 0.0
    if step(state,j,1-2**-53)==swapped: return 1.0
    lo,hi=0.0,1.0
    for _ in range(50):
        mid=(lo+hi)/2
        if step(state,j,mid)==swapped: lo=mid
        else: hi=mid
    return (lo+hi)/2
# target
def w(r):
    p=1
    for i in range(len(r)):
        for j in range(i+1,len(r)): p*= iv[r[i]]/(iv[r[i]]+iv[r[j]])
    return p
Z=sum(w(s) for s in states); pi={s:w(s)/Z for s in states}
n=len(iv)
K={s:{t:0.0 for t in states} for s in states}
for s in states:
    for j in range(n-1):
        a=accept_prob(s,j); t=list(s); t[j],t[j+1]=t[j+1],t[j]; t=tuple(t)
        K[s][t]+=a/(n-1); K[s][s]+=(1-a)/(n-1)
err=max(abs(sum(pi[s]*K[s][t] for s in states)-pi[t]) for t in states)
print('stationarity max err', err)
db=max(abs(pi[s]*K[s][t]-pi[t]*K[t][s]) for s in states for t in states)
print('detailed balance err', db)
print('pdf table vs def', max(abs(gen.pdfs_by_bloc['X'][s]-pi[s]) for s in states))
