import sys
sys.path[:0] = ['/repo/src', __import__('os').path.join(__import__('os').path.dirname(__import__('os').path.abspath(__file__)),'stubs')]
from fractions import Fraction as F
from votekit import Ballot, PreferenceProfile
from votekit.utils import *
from votekit.elections import *
import traceback, random, signal
import numpy as np

def R(*cs): return tuple(frozenset(c) if isinstance(c,(set,frozenset,tuple,list)) else frozenset({c}) for c in cs)
class TO(Exception): pass
def handler(s,f): raise TO()
signal.signal(signal.SIGALRM, handler)
def tryit(label, f):
    signal.alarm(5)
    try:
        r = f()
        print(label, '->', r)
    except TO:
        print(label, 'TIMEOUT/HANG')
    except Exception as e:
        print(label, 'EXC', type(e).__name__, e)
    finally:
        signal.alarm(0)

def states(e):
    return [(s.round_number, s.elected, s.eliminated, s.remaining, dict(s.scores), s.tiebreaks) for s in e.election_states]

# STV default election of 2 remaining; replay
p = PreferenceProfile(ballots=(Ballot(ranking=R('A'), weight=5),Ballot(ranking=R('B'), weight=2),Ballot(ranking=R('C'), weight=1)), candidates=('A','B','C'))
def f():
    e = STV(p, m=3)
    print(states(e))
    for i in range(len(e.election_states)):
        pr = e.get_profile(i); print(' get_profile',i, pr.candidates, [(b.ranking,b.weight) for b in pr.ballots])
tryit('stv default2', f)

# BRD m == ncands
p2 = PreferenceProfile(ballots=(Ballot(ranking=R('A','B'), weight=3),Ballot(ranking=R('B','A'), weight=2)), candidates=('A','B'))
tryit('BRD m=2 of 2', lambda: states(BoostedRandomDictator(p2, m=2)))
# RD exhausted
p3 = PreferenceProfile(ballots=(Ballot(ranking=R('A'), weight=3),), candidates=('A','B','C'))
tryit('RD exhausted', lambda: states(RandomDictator(p3, m=2)))
tryit('BRD exhausted', lambda: states(BoostedRandomDictator(p3, m=2)))
# PV
p4 = PreferenceProfile(ballots=(Ballot(ranking=R('A','B','C'), weight=3),Ballot(ranking=R('B','C','A'), weight=2),Ballot(ranking=R('C','A','B'), weight=2)), candidates=('A','B','C'))
def pv():
    e = PluralityVeto(p4, m=1)
    print(states(e))
    n = len(e.election_states)
    for i in range(n):
        try:
            pr = e.get_profile(i); print(' get_profile', i, pr.candidates, pr.num_ballots)
        except Exception as ex:
            print(' get_profile', i, 'EXC', type(ex).__name__, ex)
    print(' states after', len(e.election_states), n)
tryit('PV', pv)
# PV zero-FPV candidates and m
p5 = PreferenceProfile(ballots=(Ballot(ranking=R('A','B'), weight=3),Ballot(ranking=R('B','A'), weight=2)), candidates=('A','B','C','D'))
tryit('PV m=3, 2 zero-fpv', lambda: states(PluralityVeto(p5, m=3)))
tryit('PV m=2, 2 zero-fpv', lambda: states(PluralityVeto(p5, m=2)))
# random transfer with exhausted
p6 = PreferenceProfile(ballots=(Ballot(ranking=R('A'), weight=8),Ballot(ranking=R('A','B'), weight=2),Ballot(ranking=R('B'), weight=2),Ballot(ranking=R('C'), weight=3)), candidates=('A','B','C'))
tryit('STV random transfer exhausted', lambda: states(STV(p6, m=2, transfer=random_transfer)))
tryit('STV frac transfer exhausted', lambda: states(STV(p6, m=2)))
# DominatingSets zero-vote candidate
p7 = PreferenceProfile(ballots=(Ballot(ranking=R('A','B'), weight=3),Ballot(ranking=R('B','A'), weight=2)), candidates=('A','B','C'))
tryit('DS zero-vote cand', lambda: states(DominatingSets(p7)))
tryit('CondoBorda zero-vote cand m=3', lambda: states(CondoBorda(p7, m=3)))
tryit('Borda zero-vote m=3', lambda: states(Borda(p7, m=3)))
tryit('Plurality m=3 zero-vote', lambda: states(Plurality(p7, m=3)))
tryit('Plurality m=4', lambda: states(Plurality(p7, m=4)))
tryit('Plurality m=0', lambda: states(Plurality(p7, m=0)))
