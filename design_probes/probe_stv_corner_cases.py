import sys
sys.path[:0] = ['/repo/src', __import__('os').path.join(__import__('os').path.dirname(__import__('os').path.abspath(__file__)),'stubs')]
from fractions import Fraction as F
from votekit import Ballot, PreferenceProfile
from votekit.utils import *
from votekit.elections import *
import random, signal
import numpy as np
def R(*cs): return tuple(frozenset(c) if isinstance(c,(set,frozenset,tuple,list)) else frozenset({c}) for c in cs)
class TO(BaseException): pass
def handler(s,f): raise TO()
signal.signal(signal.SIGALRM, handler)
def tryit(label, f):
    signal.alarm(5)
    try:
        r = f(); print(label, '->', r)
    except TO: print(label, 'TIMEOUT/HANG')
    except Exception as e: print(label, 'EXC', type(e).__name__, e)
    finally: signal.alarm(0)
def states(e):
    return [(s.round_number, s.elected, s.eliminated, s.remaining, dict(s.scores), s.tiebreaks) for s in e.election_states]

# Hare overflow
p = PreferenceProfile(ballots=tuple(Ballot(ranking=R(c), weight=1) for c in 'ABCDE'), candidates=tuple('ABCDE'))
tryit('hare overflow sim', lambda: states(STV(p, m=3, quota='hare')))
tryit('hare overflow 1by1 random', lambda: states(STV(p, m=3, quota='hare', simultaneous=False, tiebreak='random')))
tryit('droop 5 singletons m=3 none', lambda: states(STV(p, m=3)))
# N < m hare threshold 0
p2 = PreferenceProfile(ballots=(Ballot(ranking=R('A','B'), weight=1),), candidates=tuple('ABC'))
tryit('hare N<m', lambda: states(STV(p2, m=2, quota='hare')))
tryit('droop N small', lambda: states(STV(p2, m=2)))
# one-by-one tie above threshold, no tiebreak
p3 = PreferenceProfile(ballots=(Ballot(ranking=R('A'), weight=4),Ballot(ranking=R('B'), weight=4),Ballot(ranking=R('C'), weight=1)), candidates=tuple('ABC'))
tryit('1by1 tie none', lambda: states(STV(p3, m=2, simultaneous=False)))
tryit('sim tie none', lambda: states(STV(p3, m=2, simultaneous=True)))
tryit('1by1 tie borda', lambda: states(STV(p3, m=2, simultaneous=False, tiebreak='borda')))
# elimination tie
p4 = PreferenceProfile(ballots=(Ballot(ranking=R('A'), weight=4),Ballot(ranking=R('B','A'), weight=1),Ballot(ranking=R('C','A'), weight=1)), candidates=tuple('ABC'))
import io, contextlib
tryit('elim tie', lambda: states(STV(p4, m=1)))
# rational weights
p5 = PreferenceProfile(ballots=(Ballot(ranking=R('A','B'), weight=F(7,2)),Ballot(ranking=R('B','A'), weight=F(1,3)),Ballot(ranking=R('C','A'), weight=F(5,4))), candidates=tuple('ABC'))
tryit('rational', lambda: (STV(p5, m=2).threshold, states(STV(p5, m=2))))
# TopTwo, Alaska
tryit('toptwo', lambda: states(TopTwo(p5)))
tryit('alaska', lambda: states(Alaska(p5, m_1=2, m_2=1)))
tryit('alaska 3,2', lambda: states(Alaska(p5, m_1=3, m_2=2)))
# zero-weight ballot
p6 = PreferenceProfile(ballots=(Ballot(ranking=R('A','B'), weight=0),Ballot(ranking=R('B','A'), weight=2)), candidates=tuple('AB'))
tryit('zero weight ballot', lambda: states(STV(p6, m=1)))
# empty profile
tryit('empty profile', lambda: states(STV(PreferenceProfile(candidates=('A','B')), m=1)))
# single candidate
p7 = PreferenceProfile(ballots=(Ballot(ranking=R('A'), weight=2),), candidates=('A',))
for cls in (Plurality, Borda):
    tryit(cls.__name__+' single', lambda: states(cls(p7, m=1)))
tryit('STV single', lambda: states(STV(p7, m=1)))
tryit('TopTwo single', lambda: states(TopTwo(p7)))
tryit('DS single', lambda: states(DominatingSets(p7)))
tryit('RD single', lambda: states(RandomDictator(p7, 1)))
tryit('BRD single', lambda: states(BoostedRandomDictator(p7, 1)))
tryit('PV single', lambda: states(PluralityVeto(p7, 1)))
