import sys
sys.path[:0] = ['/repo/src', __import__('os').path.join(__import__('os').path.dirname(__import__('os').path.abspath(__file__)),'stubs')]
from fractions import Fraction as F
from votekit import Ballot, PreferenceProfile, PreferenceInterval
import votekit.ballot_generator as bg
import random, signal, warnings
import numpy as np
class TO(BaseException): pass
def handler(s,f): raise TO()
signal.signal(signal.SIGALRM, handler)
def tryit(label, f):
    signal.alarm(20)
    try:
        r = f(); print(label, '->', r)
    except TO: print(label, 'TIMEOUT/HANG')
    except Exception as e: print(label, 'EXC', type(e).__name__, e)
    finally: signal.alarm(0)
def summ(pp):
    if isinstance(pp, tuple): pp = pp[-1] if isinstance(pp[-1], PreferenceProfile) else pp[0]
    return (pp.total_ballot_wt, pp.num_ballots, pp.candidates, [(tuple(tuple(sorted(s)) for s in (b.ranking or ())), b.scores, b.weight) for b in pp.ballots][:4])

random.seed(1); np.random.seed(1)
cands = ['A','B','C']
tryit('IC', lambda: summ(bg.ImpartialCulture(candidates=cands).generate_profile(10)))
tryit('IAC', lambda: summ(bg.ImpartialAnonymousCulture(candidates=cands).generate_profile(10)))
tryit('from_point', lambda: summ(bg.BallotSimplex.from_point(point={'A':0.5,'B':0.25,'C':0.25}, candidates=cands).generate_profile(10)))
s2c = {'X':['A','B'], 'Y':['C','D','E']}
pib = {'X': {'X': PreferenceInterval({'A':0.7,'B':0.3}), 'Y': PreferenceInterval({'C':0.5,'D':0.5,'E':0.0})},
       'Y': {'X': PreferenceInterval({'A':0.2,'B':0.8}), 'Y': PreferenceInterval({'C':0.1,'D':0.6,'E':0.3})}}
bvp = {'X':0.6,'Y':0.4}
coh = {'X':{'X':0.8,'Y':0.2}, 'Y':{'X':0.3,'Y':0.7}}
kw = dict(slate_to_candidates=s2c, pref_intervals_by_bloc=pib, bloc_voter_prop=bvp, cohesion_parameters=coh)
for name in ['name_PlackettLuce','name_BradleyTerry','AlternatingCrossover','CambridgeSampler','slate_PlackettLuce','slate_BradleyTerry']:
    cls = getattr(bg, name)
    tryit(name, lambda: summ(cls(**kw).generate_profile(7)))
    tryit(name+' by_bloc', lambda: {k: summ(v)[:2] for k,v in cls(**kw).generate_profile(7, by_bloc=True)[0].items()})
    tryit(name+' N=1', lambda: summ(cls(**kw).generate_profile(1)))
tryit('short PL', lambda: summ(bg.short_name_PlackettLuce(ballot_length=2, **kw).generate_profile(7)))
tryit('short PL 5', lambda: summ(bg.short_name_PlackettLuce(ballot_length=5, **kw).generate_profile(7)))
tryit('name_Cumulative', lambda: summ(bg.name_Cumulative(num_votes=3, **kw).generate_profile(7)))
tryit('nBT MCMC', lambda: summ(bg.name_BradleyTerry(**kw).generate_profile_MCMC(7)))
tryit('sBT MCMC', lambda: summ(bg.slate_BradleyTerry(**kw).generate_profile(7, deterministic=False)))
tryit('OneDim', lambda: summ(bg.OneDimSpatial(candidates=cands).generate_profile(7)))
tryit('Spatial', lambda: summ(bg.Spatial(candidates=cands).generate_profile(7)))
tryit('Clustered', lambda: summ(bg.ClusteredSpatial(candidates=cands).generate_profile_with_dict({'A':2,'B':3,'C':2})))
tryit('Clustered gp', lambda: summ(bg.ClusteredSpatial(candidates=cands).generate_profile(7)))
tryit('from_params PL', lambda: summ(bg.name_PlackettLuce.from_params(slate_to_candidates=s2c, bloc_voter_prop=bvp, cohesion_parameters=coh, alphas={'X':{'X':1,'Y':1},'Y':{'X':1,'Y':1}}).generate_profile(7)))
# 3 blocs
s3 = {'X':['A','B'], 'Y':['C'], 'Z':['D','E']}
pib3 = {b: {'X': PreferenceInterval({'A':0.7,'B':0.3}), 'Y': PreferenceInterval({'C':1}), 'Z': PreferenceInterval({'D':0.5,'E':0.5})} for b in s3}
bvp3 = {'X':0.5,'Y':0.3,'Z':0.2}
coh3 = {'X':{'X':0.8,'Y':0.2,'Z':0.0}, 'Y':{'X':0.3,'Y':0.6,'Z':0.1}, 'Z':{'X':0,'Y':0,'Z':1}}
kw3 = dict(slate_to_candidates=s3, pref_intervals_by_bloc=pib3, bloc_voter_prop=bvp3, cohesion_parameters=coh3)
for name in ['name_PlackettLuce','name_BradleyTerry','slate_PlackettLuce','name_Cumulative']:
    cls = getattr(bg, name)
    extra = {'num_votes':2} if name=='name_Cumulative' else {}
    tryit(name+' 3blocs', lambda: summ(cls(**kw3, **extra).generate_profile(9)))
    tryit(name+' 3blocs N=2', lambda: summ(cls(**kw3, **extra).generate_profile(2)))
