import sys, os, io, contextlib, random as _r, collections
sys.path[:0] = ['/repo/src', os.path.join(os.path.dirname(os.path.abspath(__file__)),'stubs')]
from fractions import Fraction as F
from votekit import Ballot
import votekit.elections.transfers as T
from votekit.elections import fractional_transfer, random_transfer

class Fac:
    def __init__(self, rng): self.rng=rng; self.calls=[]
    def sample(self, pop, k):
        self.calls.append((list(pop),k))
        s=sorted(pop, key=lambda b:(tuple(tuple(sorted(x)) for x in b.ranking)))
        return self.rng.sample(s,k)
rng=_r.Random(3); names=list('ABCDE'); stats=collections.Counter(); bad=[]
def rk(b): return tuple(next(iter(s)) for s in b.ranking)
for i in range(3000):
    n=rng.randint(1,5); cs=names[:n]; w=rng.choice(cs); kind=rng.choice(['frac','rand'])
    bl=[]
    for _ in range(rng.randint(1,7)):
        led=rng.random()<0.7
        others=[c for c in cs if c!=w]; tail=rng.sample(others, rng.randint(0,len(others)))
        if led: r=[w]+tail
        else:
            if not tail: continue
            pos=rng.randint(1,len(tail)); r=tail[:pos]+([w] if rng.random()<.5 else [])+tail[pos:]
        wt = rng.randint(1,5) if kind=='rand' else rng.choice([1,2,3,F(5,2),F(1,3)])
        bl.append(Ballot(ranking=tuple(frozenset({c}) for c in r), weight=wt, id=rng.choice([None,'x'])))
    t=sum((b.weight for b in bl if rk(b)[0]==w), F(0))
    if t<1: continue
    q=rng.randint(1,int(t))
    fac=Fac(rng); T.random=fac
    try:
        out = fractional_transfer(w,t,bl,q) if kind=='frac' else random_transfer(w,t,bl,q)
    except Exception as x:
        transferable=sum(b.weight for b in bl if rk(b)[0]==w and len(rk(b))>1)
        stats[kind,'exc',type(x).__name__, 'surplus>transferable' if t-q>transferable else 'other']+=1; continue
    got=collections.Counter()
    for b in out:
        if w in rk(b): bad.append((i,'mentions winner'))
        got[rk(b)]+=b.weight
    if kind=='frac':
        exp=collections.Counter()
        for b in bl:
            r=tuple(c for c in rk(b) if c!=w); wt=b.weight*(t-q)/t if rk(b)[0]==w else b.weight
            if r and wt>0: exp[r]+=wt
        ok = got==exp
    else:
        passthru=collections.Counter(); pile=collections.Counter()
        for b in bl:
            r=tuple(c for c in rk(b) if c!=w)
            if not r: continue
            if rk(b)[0]==w: pile[r]+=b.weight
            else: passthru[r]+=b.weight
        moved=got-passthru   # Counter subtraction keeps positives
        ok = all(got[r]>=passthru[r] for r in passthru) and all(moved[r]<=pile[r] for r in moved) and sum(moved.values())==t-q
        # seam observation
        (pop,k),=fac.calls
        popc=collections.Counter(rk(b) for b in pop)
        ok = ok and popc==pile and k==t-q and all(b.weight==1 for b in pop)
    stats[kind, ok]+=1
    if not ok: bad.append((i,kind,dict(got)))
print(stats); print(len(bad), bad[:4])
