import sys, io, contextlib, random as _r, collections
sys.path[:0] = ['/repo/src', __import__('os').path.join(__import__('os').path.dirname(__import__('os').path.abspath(__file__)),'stubs')]
from fractions import Fraction as F
from votekit import Ballot, PreferenceProfile
import votekit.utils as U, votekit.elections.transfers as T
from votekit.elections import *
import votekit.elections.election_types.ranking.stv as stvmod

class Fac:
    def __init__(self, mode): self.mode=mode; self.log=[]
    def sample(self, pop, k):
        try: s=sorted(pop)
        except TypeError: s=sorted(pop, key=lambda b:(tuple(tuple(sorted(x)) for x in b.ranking), b.weight))
        if self.mode=='desc': s=s[::-1]
        self.log.append(('sample', len(pop), k)); return s[:k]

rec=[]
orig=STV._run_step
def wrapped(self, profile, prev_state, store_states=False):
    out=orig(self, profile, prev_state, store_states)
    if store_states: rec.append((profile, prev_state, out))
    return out
STV._run_step=wrapped

def pmap(profile):
    d=collections.defaultdict(F)
    for b in profile.ballots:
        d[tuple(next(iter(s)) for s in b.ranking)] += b.weight
    return {k:v for k,v in d.items() if v!=0}
def tallies(pm, hopefuls):
    t={c:F(0) for c in hopefuls}
    for r,w in pm.items(): t[r[0]]+=w
    return t
def groups(t):
    vals=sorted(set(t.values()), reverse=True)
    return [frozenset(c for c in t if t[c]==v) for v in vals]

def check(e, p, m, quota, sim, kind):
    """returns None or a mismatch string. deterministic transfer kinds only"""
    N=p.total_ballot_wt
    q = int(N/(m+1))+1 if quota=='droop' else int(N/m)
    assert (N/(m+1)).__floor__()+1 == q if quota=='droop' else True
    if e.threshold!=q: return f'threshold {e.threshold} vs {q}'
    init_fpv = tallies(pmap(p), p.candidates)
    elected=[]; st=e.election_states
    if len(rec)!=len(st)-1: return 'rec length'
    for r,(pin, prev, pout) in enumerate(rec, start=1):
        pm=pmap(pin); hop=set(pin.candidates); t=tallies(pm,hop)
        if dict(prev.scores)!=t: return f'r{r} prev scores {dict(prev.scores)} vs {t}'
        if list(prev.remaining)!=groups(t) and not (len(t)==0): return f'r{r} prev remaining order'
        s=st[r]
        over=[c for c in hop if t[c]>=q]
        new=None
        if over:
            if sim:
                exp_el=[g for g in groups(t) if t[next(iter(g))]>=q]
                if list(s.elected)!=exp_el: return f'r{r} elected {s.elected} vs {exp_el}'
                winners=set(over)
            else:
                top=groups(t)[0]
                if len(top)>1:
                    if top not in s.tiebreaks: return f'r{r} missing tiebreak'
                    order=s.tiebreaks[top]
                    if sorted(next(iter(x)) for x in order)!=sorted(top) : return f'r{r} bad order'
                    w=next(iter(order[0]))
                else: w=next(iter(top))
                if s.elected!=(frozenset({w}),): return f'r{r} 1by1 elected'
                winners={w}
            if s.eliminated!=(frozenset(),): return f'r{r} elim nonempty'
            new=collections.defaultdict(F)
            for rk,wt in pm.items():
                if rk[0] in winners:
                    tv = (t[rk[0]]-q)/t[rk[0]] if kind=='frac' else 1
                    wt=wt*tv
                nr=tuple(c for c in rk if c not in winners)
                if nr and wt>0: new[nr]+=wt
            newhop=hop-winners
        elif len(hop)==m-len(elected):
            if tuple(s.elected)!=tuple(prev.remaining): return f'r{r} default elect'
            winners=set(hop); new={}; newhop=set()
        else:
            low=groups(t)[-1]
            if len(low)>1:
                if low not in s.tiebreaks: return f'r{r} missing elim tiebreak'
                order=[next(iter(x)) for x in s.tiebreaks[low]]
                if sorted(order)!=sorted(low): return f'r{r} elim order set'
                if any(init_fpv[a]<init_fpv[b] for a,b in zip(order,order[1:])): return f'r{r} elim order not by initial fpv'
                x=order[-1]
            else: x=next(iter(low))
            if s.eliminated!=(frozenset({x}),) or s.elected!=(frozenset(),): return f'r{r} eliminated {s.eliminated} vs {x}'
            winners=set()
            new=collections.defaultdict(F)
            for rk,wt in pm.items():
                nr=tuple(c for c in rk if c!=x)
                if nr: new[nr]+=wt
            newhop=hop-{x}
        elected+=list(winners)
        if pmap(pout)!=dict(new): return f'r{r} out profile {pmap(pout)} vs {dict(new)}'
        if set(pout.candidates)!=newhop: return f'r{r} out candidates {pout.candidates} vs {newhop}'
        nt=tallies(dict(new), newhop)
        if dict(s.scores)!=nt: return f'r{r} scores'
        if newhop and list(s.remaining)!=groups(nt): return f'r{r} remaining'
    if len(elected)!=m: return 'count'
    return None

rng=_r.Random(5); names=list('ABCDEF'); stats=collections.Counter(); bad=[]
for i in range(1500):
    n=rng.randint(1,6); cs=names[:n]; bl=[]
    wfam=rng.choice(['int','rat'])
    for _ in range(rng.randint(0,7)):
        k=rng.randint(1,n)
        w = rng.choice([1,1,2,3,5]) if wfam=='int' else F(rng.randint(1,9), rng.choice([1,2,3,4]))
        bl.append(Ballot(ranking=tuple(frozenset({c}) for c in rng.sample(cs,k)), weight=w))
    p=PreferenceProfile(ballots=tuple(bl), candidates=tuple(cs)); m=rng.randint(1,n)
    sim=rng.random()<0.5; quota=rng.choice(['droop','droop','hare']); tb=rng.choice([None,'random','borda','first_place']); kind=rng.choice(['frac','seq'])
    mode=rng.choice(['asc','desc'])
    f=Fac(mode); U.random=f; T.random=f; rec.clear()
    try:
        with contextlib.redirect_stdout(io.StringIO()):
            e = STV(p,m=m,quota=quota,simultaneous=sim,tiebreak=tb) if kind=='frac' else SequentialRCV(p,m=m,quota=quota,simultaneous=sim,tiebreak=tb)
    except Exception as ex:
        stats['exc:'+quota+':'+type(ex).__name__]+=1; continue
    r=check(e,p,m,quota,sim,kind)
    stats['ok' if r is None else 'MISMATCH']+=1
    if r: bad.append((i,quota,sim,tb,kind,m,r))
print(stats); print(bad[:8])
