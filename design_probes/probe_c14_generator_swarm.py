import sys, io, contextlib, random as _r, collections, traceback, warnings
sys.path[:0] = ['/repo/src', __import__('os').path.join(__import__('os').path.dirname(__import__('os').path.abspath(__file__)),'stubs')]
warnings.filterwarnings('ignore')
from fractions import Fraction as F
import numpy as np, random
from votekit import Ballot, PreferenceProfile, PreferenceInterval
import votekit.ballot_generator as bg

_real_rng=np.random.default_rng
def hh_valid(props, a, N):
    if sum(a)!=N: return 'sum'
    pos=[i for i,p in enumerate(props) if p>0]
    for i,p in enumerate(props):
        if p==0 and a[i]!=0: return 'zero-prop got seats'
    if N < len(pos):
        if any(x not in (0,1) for x in a): return 'small N not 0/1'
        ones=[props[i] for i in pos if a[i]==1]; zeros=[props[i] for i in pos if a[i]==0]
        if ones and zeros and min(ones) < max(zeros)*(1-1e-9): return 'small N wrong parties'
        return None
    for i in pos:
        if a[i]==0: return 'positive bloc got 0'
    for i in pos:
        for j in pos:
            if i==j: continue
            if a[i]>=2:
                lhs=props[i]**2/(a[i]*(a[i]-1)); rhs=props[j]**2/(a[j]*(a[j]+1))
                if lhs < rhs*(1-1e-9): return f'HH ineq {i},{j}'
    return None

rng=_r.Random(77); stats=collections.Counter(); bad=collections.Counter(); ex={}
allc=list('ABCDEF')
def rand_simplex(k, zeros_ok=True):
    v=[rng.choice([0,0.0,1,2,3,5,0.5]) if zeros_ok else rng.choice([1,2,3,5,0.5]) for _ in range(k)]
    if sum(v)==0: v[rng.randrange(k)]=1
    s=sum(v); return [x/s for x in v]
for it in range(1500):
    nb=rng.choice([1,2,2,2,3]); blocs=['X','Y','Z'][:nb]
    sizes=[rng.randint(1,3) for _ in blocs]
    while sum(sizes)>6: sizes[rng.randrange(nb)]=1
    cands=iter(allc); s2c={b:[next(cands) for _ in range(sz)] for b,sz in zip(blocs,sizes)}
    def interval(b):
        v=[rng.choice([0,1,1,2,5,0.1]) for _ in s2c[b]]
        if sum(v)==0: v[0]=1
        return PreferenceInterval(dict(zip(s2c[b],v)))
    pib={vb:{b:interval(b) for b in blocs} for vb in blocs}
    bvp=dict(zip(blocs, rand_simplex(nb)))
    coh={vb:dict(zip(blocs, rand_simplex(nb))) for vb in blocs}
    N=rng.choice([1,2,3,5,17,40])
    kw=dict(slate_to_candidates=s2c, pref_intervals_by_bloc=pib, bloc_voter_prop=bvp, cohesion_parameters=coh)
    name=rng.choice(['name_PlackettLuce','name_BradleyTerry','name_BT_MCMC','slate_PlackettLuce','slate_BradleyTerry','slate_BT_MCMC','AlternatingCrossover','CambridgeSampler','name_Cumulative','short'])
    if name in ('slate_BradleyTerry','slate_BT_MCMC','AlternatingCrossover','CambridgeSampler') and nb!=2: continue
    seed=rng.randrange(10**6); random.seed(seed); np.random.seed(seed); np.random.default_rng=lambda *a,**k: _real_rng(seed)
    extra={}
    try:
        with contextlib.redirect_stdout(io.StringIO()):
            if name=='name_BT_MCMC': g=bg.name_BradleyTerry(**kw); res=g.generate_profile_MCMC(N, by_bloc=True)
            elif name=='slate_BT_MCMC': g=bg.slate_BradleyTerry(**kw); res=g.generate_profile(N, by_bloc=True, deterministic=False)
            elif name=='name_Cumulative': extra={'num_votes':rng.randint(1,4)}; g=bg.name_Cumulative(**kw, **extra); res=g.generate_profile(N, by_bloc=True)
            elif name=='short': extra={'ballot_length':rng.randint(1,sum(sizes))}; g=bg.short_name_PlackettLuce(**kw, **extra); res=g.generate_profile(N, by_bloc=True)
            else: g=getattr(bg,name)(**kw); res=g.generate_profile(N, by_bloc=True)
    except Exception as x:
        tbk=traceback.extract_tb(x.__traceback__)
        fr=[t for t in tbk if 'votekit' in t.filename][-1]
        key=(name,'EXC',type(x).__name__, fr.name, fr.lineno)
        bad[key]+=1; ex.setdefault(key,(str(x)[:90], bvp, coh, {b:{bb:dict(i.interval)|{z:0 for z in i.zero_cands} for bb,i in d.items()} for b,d in pib.items()}, N, extra)); continue
    stats[name]+=1
    byb, agg = res
    def flag(k, info=None):
        bad[(name,k)]+=1; ex.setdefault((name,k),(info, bvp, coh, N, extra))
    if agg.total_ballot_wt!=N: flag('total', str(agg.total_ballot_wt))
    declared=set(c for l in s2c.values() for c in l)
    for b in agg.ballots:
        if b.weight<=0 or b.weight.denominator!=1: flag('weight')
        if b.ranking:
            fl=[c for s in b.ranking for c in s]
            if len(fl)!=len(set(fl)): flag('dup', fl)
            if not set(fl)<=declared: flag('undeclared', fl)
    sizes_b=[int(byb[b].total_ballot_wt) for b in blocs]
    if name not in ('AlternatingCrossover','CambridgeSampler'):
        r=hh_valid([bvp[b] for b in blocs], sizes_b, N)
        if r: flag('apportion '+r, (sizes_b,))
    # sum of blocs == aggregate
    tot=collections.Counter()
    for b in blocs:
        for bal in byb[b].ballots: tot[(bal.ranking, tuple(sorted((bal.scores or {}).items())))]+=bal.weight
    ag=collections.Counter()
    for bal in agg.ballots: ag[(bal.ranking, tuple(sorted((bal.scores or {}).items())))]+=bal.weight
    if tot!=ag: flag('bloc sum')
    # completeness for complete models
    if name in ('name_PlackettLuce','name_BradleyTerry','name_BT_MCMC','slate_PlackettLuce','slate_BradleyTerry','slate_BT_MCMC'):
        for vb in blocs:
            for bal in byb[vb].ballots:
                fl=[c for s in bal.ranking for c in s]
                if set(fl)!=declared: flag('incomplete', (vb, fl))
                if any(len(s)>1 for s in bal.ranking[:-1]): flag('tie not last')
print(stats); 
for k,v in sorted(bad.items(), key=lambda kv:-kv[1]): print(v, k, '|', str(ex[k])[:300])
