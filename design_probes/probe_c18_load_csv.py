import sys, os, csv, tempfile, random as _r, collections, shutil, traceback
sys.path[:0] = ['/repo/src', __import__('os').path.join(__import__('os').path.dirname(__import__('os').path.abspath(__file__)),'stubs')]
from fractions import Fraction as F
from votekit.cvr_loaders import load_csv
d=tempfile.mkdtemp(prefix='c18probe')
rng=_r.Random(9); pool=['Ann','Bob B','Smith, J','O"Neil','Zoë','x y z','Q','de la Cruz','M-1','a;b','p|q']
stats=collections.Counter(); bad=collections.Counter(); ex={}
for it in range(600):
    ncol=rng.randint(1,6); nrows=rng.randint(1,12); names=rng.sample(pool, rng.randint(1,5))
    delim=rng.choice([',',',',';','|','\t'])
    has_id=rng.random()<0.4; id_pos=rng.randint(0,ncol) if has_id else None
    patterns=[[rng.choice(names+['']) for _ in range(ncol)] for _ in range(rng.randint(1,4))]
    rows=[rng.choice(patterns) for _ in range(nrows)]
    header=[f'rank{i}' for i in range(ncol)]
    table=[]
    for i,r in enumerate(rows):
        r=list(r)
        if has_id: r.insert(id_pos, f'v{i}')
        table.append(r)
    if has_id: header.insert(id_pos,'voter')
    path=os.path.join(d,f'f{it}.csv')
    with open(path,'w',newline='') as f:
        w=csv.writer(f, delimiter=delim, lineterminator=rng.choice(['\n','\r\n'])); w.writerow(header); w.writerows(table)
    allcols=list(range(len(header))); rankidx=[i for i in allcols if i!=id_pos]
    mode=rng.choice(['all','subset'])
    if mode=='all' and not has_id: rc=[]; sel=rankidx
    else:
        k=rng.randint(1,len(rankidx)); sel=rng.sample(rankidx,k); rc=sel
    exp=collections.Counter(); voters=collections.defaultdict(set)
    for r in table:
        key=tuple(r[c] if r[c]!='' else None for c in sel); exp[key]+=1
        if has_id: voters[key].add(r[id_pos])
    try:
        pp=load_csv(path, rank_cols=rc, delimiter=(None if delim==',' else delim), id_col=id_pos)
    except Exception as x:
        fr=[t for t in traceback.extract_tb(x.__traceback__)][-1]
        k=('EXC',type(x).__name__,has_id, mode); bad[k]+=1; ex.setdefault(k,(str(x)[:80], header, table[:3], rc, id_pos)); continue
    got=collections.Counter(); gotv={}
    okshape=True
    for b in pp.ballots:
        key=tuple(next(iter(s)) for s in b.ranking); got[key]+=b.weight; gotv[key]=b.voter_set
    stats['loaded', has_id]+=1
    if got!=exp:
        k=('MISMATCH', has_id, 'idpos==len(rc)' if has_id and id_pos==len(rc) else ('id' if has_id else 'noid')); bad[k]+=1; ex.setdefault(k,(header,table[:4],rc,id_pos,dict(got),dict(exp)))
    elif has_id and any(gotv[k]!=voters[k] for k in exp): bad[('VOTERS',)]+=1
    if pp.total_ballot_wt!=len(table): bad[('TOTAL',has_id)]+=1
shutil.rmtree(d)
print(stats)
for k,v in sorted(bad.items(), key=lambda kv:-kv[1]): print(v,k,'|',str(ex.get(k))[:400])
