import sys, os, io, contextlib, random as _r, collections, traceback, signal
sys.path[:0] = ['/repo/src', os.path.join(os.path.dirname(os.path.abspath(__file__)),'stubs')]
from fractions import Fraction as F
import numpy as real_np
from votekit import Ballot, PreferenceProfile
import votekit.utils as U, votekit.elections.transfers as T, votekit.models as M
from votekit.elections import *
import votekit.elections.election_types.ranking.random_dictator as RDm, votekit.elections.election_types.ranking.boosted_random_dictator as BRDm, votekit.elections.election_types.ranking.plurality_veto as PVm

class Budget(BaseException): pass
class SimR:
    def __init__(self, rng): self.rng=rng; self.n=0
    def _s(self,pop):
        try: return sorted(pop)
        except TypeError: return sorted(pop, key=lambda b:(tuple(tuple(sorted(map(str,x))) for x in (b.ranking or ())), b.weight))
    def sample(self,pop,k): self.n+=1; return self.rng.sample(self._s(pop),k)
    def choices(self,pop,weights=None,k=1): self.n+=1; return self.rng.choices(list(pop),weights=weights,k=k)
    def uniform(self,a,b): self.n+=1; return self.rng.uniform(a,b)
    def random(self): self.n+=1; return self.rng.random()
class NpR:
    def __init__(self,rng): self.rng=rng
    def shuffle(self,x): self.rng.shuffle(x)
    def choice(self,a,p=None,**kw):
        a=list(a); return self.rng.choices(a,weights=list(p))[0]
    def __getattr__(self,n): return getattr(real_np.random,n)
class NpP:
    def __init__(self,rng): self.random=NpR(rng)
    def __getattr__(self,n): return getattr(real_np,n)
rounds=[0]
def wrap(cls):
    if '_run_step' not in cls.__dict__: return
    orig=cls.__dict__['_run_step']
    def w(self,profile,prev_state,store_states=False):
        if store_states:
            self._n=getattr(self,'_n',0)+1
            if self._n>2*len(self._profile.candidates)+6: raise Budget()
        return orig(self,profile,prev_state,store_states)
    cls._run_step=w
RULES=[STV,IRV,SequentialRCV,Plurality,SNTV,Borda,TopTwo,Alaska,DominatingSets,CondoBorda,RandomDictator,BoostedRandomDictator,PluralityVeto,GeneralRating,Rating,Limited,Cumulative,Approval,BlocPlurality]
for c in RULES: wrap(c)

def check(e, cands, want):
    st=e.election_states; seen_el=set(); seen_out=set()
    for r,s in enumerate(st):
        if s.round_number!=r: return f'round_number {s.round_number}!={r}'
        el=[c for x in e.get_elected(r) for c in x]; out=[c for x in e.get_eliminated(r) for c in x]; rem=[c for x in e.get_remaining(r) for c in x]
        if sorted(el+out+rem)!=sorted(cands): return f'partition r{r}: el={el} out={out} rem={rem}'
        if not seen_el<=set(el) or not seen_out<=set(out): return f'status regressed r{r}'
        seen_el=set(el); seen_out=set(out)
    n=len([c for x in e.get_elected() for c in x])
    if want is not None and n!=want: return f'elected {n} != {want}'
    return None

rng=_r.Random(101); names=list('ABCDEF'); stats=collections.Counter(); sig=collections.Counter(); ex={}
signal.signal(signal.SIGALRM, lambda *a: (_ for _ in ()).throw(Budget()))
for i in range(6000):
    n=rng.randint(1,6); cs=names[:n]; rule=rng.choice(RULES); m=rng.randint(1,n)
    tb=rng.choice([None,'random','borda','first_place']); srng=_r.Random(rng.randrange(10**9))
    score_rule = rule in (GeneralRating,Rating,Limited,Cumulative,Approval,BlocPlurality)
    tied_ok = rule in (Plurality,SNTV,Borda,RandomDictator,BoostedRandomDictator)
    intw = rule is PluralityVeto
    bl=[]
    for _ in range(rng.randint(0,7)):
        w = rng.randint(1,5) if intw or rng.random()<.6 else F(rng.randint(1,9),rng.choice([2,3,4]))
        if score_rule:
            L = 1 if rule in (Approval,BlocPlurality) else (m if rule in (Cumulative,Limited) else 3)
            k = m if rule in (Cumulative,Limited,BlocPlurality) else None
            sc={}; budget=k
            for c in rng.sample(cs, rng.randint(1,n)):
                v=rng.randint(1,L) if budget is None else min(rng.randint(1,L), budget)
                if v<=0: break
                sc[c]=v
                if budget is not None: budget-=v
            if sc: bl.append(Ballot(scores=sc, weight=w))
        else:
            k=rng.randint(1,n); perm=rng.sample(cs,k)
            if tied_ok and k>=2 and rng.random()<.3: r=(frozenset(perm[:2]),)+tuple(frozenset({c}) for c in perm[2:])
            else: r=tuple(frozenset({c}) for c in perm)
            bl.append(Ballot(ranking=r, weight=w))
    p=PreferenceProfile(ballots=tuple(bl), candidates=tuple(cs))
    kw={}; want=m
    if rule in (STV,SequentialRCV): kw=dict(m=m,quota=rng.choice(['droop','droop','hare']),simultaneous=rng.random()<.5,tiebreak=tb)
    elif rule is IRV: kw=dict(quota=rng.choice(['droop','hare']),tiebreak=tb); want=1
    elif rule in (Plurality,SNTV,Borda): kw=dict(m=m,tiebreak=tb)
    elif rule is TopTwo:
        if n<2: continue
        kw=dict(tiebreak=tb); want=1
    elif rule is Alaska:
        m1=rng.randint(1,n); m2=rng.randint(1,m1); kw=dict(m_1=m1,m_2=m2,tiebreak=tb,simultaneous=rng.random()<.5); want=m2
    elif rule is DominatingSets: want=None
    elif rule is CondoBorda: kw=dict(m=m)
    elif rule in (RandomDictator,BoostedRandomDictator): kw=dict(m=m)
    elif rule is PluralityVeto: kw=dict(m=m,tiebreak=tb)
    elif rule is GeneralRating: kw=dict(m=m,L=3,tiebreak=tb)
    elif rule is Rating: kw=dict(m=m,L=3,tiebreak=tb)
    elif rule is Limited: kw=dict(m=m,k=m,tiebreak=tb)
    elif rule in (Cumulative,Approval): kw=dict(m=m,tiebreak=tb)
    elif rule is BlocPlurality: kw=dict(m=m,tiebreak=tb)
    f=SimR(srng); npp=NpP(srng)
    U.random=f; T.random=f; RDm.random=f; BRDm.random=f; BRDm.np=npp; PVm.np=npp
    signal.alarm(10)
    try:
        with contextlib.redirect_stdout(io.StringIO()), contextlib.redirect_stderr(io.StringIO()): e=rule(p,**kw)
        signal.alarm(0)
        r=check(e,cs,want)
        if r: sig[(rule.__name__,'ORACLE',r.split(':')[0].split(' r')[0])]+=1; ex.setdefault((rule.__name__,'ORACLE',r.split(':')[0].split(' r')[0]),(r,kw,[(b.ranking and tuple(tuple(sorted(s)) for s in b.ranking), b.scores, str(b.weight)) for b in bl]))
        else: stats[rule.__name__,'ok']+=1
    except Budget:
        signal.alarm(0); sig[(rule.__name__,'HANG/BUDGET')]+=1; ex.setdefault((rule.__name__,'HANG/BUDGET'),(kw,[(tuple(tuple(sorted(s)) for s in b.ranking),str(b.weight)) for b in bl]))
    except Exception as x:
        signal.alarm(0)
        fr=[t for t in traceback.extract_tb(x.__traceback__) if 'votekit' in t.filename][-1]
        if isinstance(x,ValueError) and tb is None and 'breaking ties' in str(x): stats[rule.__name__,'tie ValueError']+=1
        else:
            k=(rule.__name__,type(x).__name__,fr.name,fr.lineno); sig[k]+=1; ex.setdefault(k,(str(x)[:70],kw,len(bl)))
print(sorted(stats.items()))
for k,v in sorted(sig.items(), key=lambda kv:(kv[0][0],-kv[1])): print(v,k,'|',str(ex[k])[:260])
