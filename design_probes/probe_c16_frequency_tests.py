import sys, io, contextlib, collections, itertools, math, warnings, time
sys.path[:0] = ['/repo/src', __import__('os').path.join(__import__('os').path.dirname(__import__('os').path.abspath(__file__)),'stubs')]
warnings.filterwarnings('ignore')
import numpy as np, random
from scipy.stats import binom
from votekit import PreferenceInterval
import votekit.ballot_generator as bg

def pl_prob(order, iv):
    p=1.0; rem=sum(iv[c] for c in order)
    for c in order:
        p*=iv[c]/rem; rem-=iv[c]
    return p
def test(name, law, counts, n):
    worst=1.0; wc=None
    tot=sum(law.values()); assert abs(tot-1)<1e-9, (name, tot)
    for cell,p in law.items():
        k=counts.get(cell,0)
        tail=min(1.0, 2*min(binom.cdf(k,n,p), binom.sf(k-1,n,p)))
        if tail<worst: worst,wc=tail,(cell,k,n*p)
    extra=[c for c in counts if c not in law]
    print(f'{name:28s} n={n} cells={len(law)} worst p={worst:.2e} at {wc} unexpected_cells={extra[:3]}')

n=20000
random.seed(5); np.random.seed(5)
s2c={'X':['A','B'],'Y':['C','D','E']}
pib={'X':{'X':PreferenceInterval({'A':0.8,'B':0.2}),'Y':PreferenceInterval({'C':0.6,'D':0.3,'E':0.1})},
     'Y':{'X':PreferenceInterval({'A':0.3,'B':0.7}),'Y':PreferenceInterval({'C':0.2,'D':0.2,'E':0.6})}}
coh={'X':{'X':0.7,'Y':0.3},'Y':{'X':0.4,'Y':0.6}}
kw=dict(slate_to_candidates=s2c,pref_intervals_by_bloc=pib,bloc_voter_prop={'X':1.0,'Y':0.0},cohesion_parameters=coh)
def rankings(pp): 
    c=collections.Counter()
    for b in pp.ballots: c[tuple(next(iter(s)) for s in b.ranking)]+=int(b.weight)
    return c
comb={**{c:v*0.7 for c,v in pib['X']['X'].interval.items()}, **{c:v*0.3 for c,v in pib['X']['Y'].interval.items()}}
cands=list(comb)
t=time.time()
pp=bg.name_PlackettLuce(**kw).generate_profile(n)
test('name_PL', {o:pl_prob(o,comb) for o in itertools.permutations(cands)}, rankings(pp), n); print(' t',time.time()-t)
# name_BT
def bt(o): 
    p=1
    for i in range(len(o)):
        for j in range(i+1,len(o)): p*=comb[o[i]]/(comb[o[i]]+comb[o[j]])
    return p
Z=sum(bt(o) for o in itertools.permutations(cands))
t=time.time(); pp=bg.name_BradleyTerry(**kw).generate_profile(n)
test('name_BT', {o:bt(o)/Z for o in itertools.permutations(cands)}, rankings(pp), n); print(' t',time.time()-t)
# slate_PL: pattern law with exhaustion, then within-slate PL
def spl_patterns(sizes, co):
    out={}
    def rec(prefix, left, p):
        if all(v==0 for v in left.values()): out[tuple(prefix)]=out.get(tuple(prefix),0)+p; return
        avail={b:co[b] for b in left if left[b]>0}; z=sum(avail.values())
        for b,v in avail.items():
            if z==0: continue
            if v==0: continue
            l2=dict(left); l2[b]-=1; rec(prefix+[b], l2, p*v/z)
    rec([], dict(sizes), 1.0); return out
pat=spl_patterns({'X':2,'Y':3}, coh['X'])
law={}
for pt,pp_ in pat.items():
    for ox in itertools.permutations(s2c['X']):
        for oy in itertools.permutations(s2c['Y']):
            it={'X':iter(ox),'Y':iter(oy)}
            order=tuple(next(it[b]) for b in pt)
            law[order]=law.get(order,0)+pp_*pl_prob(ox,pib['X']['X'].interval)*pl_prob(oy,pib['X']['Y'].interval)
t=time.time(); pp=bg.slate_PlackettLuce(**kw).generate_profile(n)
test('slate_PL', law, rankings(pp), n); print(' t',time.time()-t)
# slate_BT exact
def sbt(pt,c):
    succ=sum(pt[i+1:].count('Y') for i,b in enumerate(pt) if b=='X'); return c**succ*(1-c)**(6-succ)
pats=set(itertools.permutations(['X','X','Y','Y','Y'])); Z=sum(sbt(p,0.7) for p in pats)
law={}
for pt in pats:
    for ox in itertools.permutations(s2c['X']):
        for oy in itertools.permutations(s2c['Y']):
            it={'X':iter(ox),'Y':iter(oy)}; order=tuple(next(it[b]) for b in pt)
            law[order]=law.get(order,0)+sbt(pt,0.7)/Z*pl_prob(ox,pib['X']['X'].interval)*pl_prob(oy,pib['X']['Y'].interval)
t=time.time(); pp=bg.slate_BradleyTerry(**kw).generate_profile(n)
test('slate_BT exact', law, rankings(pp), n); print(' t',time.time()-t)
# AC: bloc ballots: PL(own) then PL(opp); here cohesion .7 => 70% bloc ballots
law={}
for ox in itertools.permutations(s2c['X']):
    for oy in itertools.permutations(s2c['Y']):
        px=pl_prob(ox,pib['X']['X'].interval); py=pl_prob(oy,pib['X']['Y'].interval)
        law[ox+oy]=law.get(ox+oy,0)+0.7*px*py
        cross=tuple(c for pair in zip(oy,ox) for c in pair)
        law[cross]=law.get(cross,0)+0.3*px*py
t=time.time(); pp=bg.AlternatingCrossover(**kw).generate_profile(n)
test('AC', law, rankings(pp), n); print(' t',time.time()-t)
