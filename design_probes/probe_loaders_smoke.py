import sys, os, tempfile, csv
sys.path[:0] = ['/repo/src', __import__('os').path.join(__import__('os').path.dirname(__import__('os').path.abspath(__file__)),'stubs')]
from votekit.cvr_loaders import load_csv, load_scottish
from votekit import PreferenceProfile, Ballot
from fractions import Fraction as F
d = tempfile.mkdtemp()
def w(name, text):
    p = os.path.join(d, name); open(p,'w',newline='').write(text); return p
def show(pp):
    return [(tuple(tuple(s) for s in b.ranking), b.weight, b.voter_set) for b in pp.ballots], pp.total_ballot_wt, pp.candidates
def tryit(label, f):
    try: print(label, '->', f())
    except Exception as e: print(label, 'EXC', type(e).__module__, type(e).__name__, e)
p = w('a.csv', 'r1,r2,r3\nA,B,C\nA,B,C\nB,,\nB,,\n"Smith, J",A,\n,,\nA,,B\n')
tryit('basic', lambda: show(load_csv(p)))
tryit('cols [2,0]', lambda: show(load_csv(p, rank_cols=[2,0])))
p2 = w('b.csv', 'id,r1,r2,w\nv1,A,B,2\nv2,A,B,3\nv3,B,,1\n')
tryit('id+weight', lambda: show(load_csv(p2, rank_cols=[1,2], id_col=0, weight_col=3)))
tryit('id only', lambda: show(load_csv(p2, rank_cols=[1,2], id_col=0)))
tryit('no rank_cols with id', lambda: show(load_csv(p2, id_col=0)))
p3 = w('c.csv', 'r1;r2\nA;B\nB;A\nA;B\n')
tryit('delim', lambda: show(load_csv(p3, delimiter=';')))
tryit('missing', lambda: show(load_csv(os.path.join(d,'nope.csv'))))
p4 = w('d.csv', '')
tryit('empty file', lambda: show(load_csv(p4)))
p5 = w('e.csv', 'r1,r2\n')
tryit('header only', lambda: show(load_csv(p5)))
p6 = w('f.csv', 'id,r1\n,A\nv2,B\n')
tryit('blank id', lambda: show(load_csv(p6, rank_cols=[1], id_col=0)))
p7 = w('g.csv', 'id,r1\nv1,A\nv1,B\n')
tryit('dup id', lambda: show(load_csv(p7, rank_cols=[1], id_col=0)))
p8 = w('h.csv', 'r1,r2,id\nA,B,v1\nA,B,v2\n')
tryit('id last col', lambda: show(load_csv(p8, rank_cols=[0,1], id_col=2)))
tryit('id last col, no rank_cols', lambda: show(load_csv(p8, id_col=2)))
# to_csv
pp = PreferenceProfile(ballots=(Ballot(ranking=(frozenset({'A'}),frozenset({'B','C'})), weight=F(3,2), scores={'A':2,'B':F(1,3)}), Ballot(weight=2)))
out = os.path.join(d,'out.csv'); pp.to_csv(out); print(open(out).read())
sc = w('s.csv', '3,2\n\n2,1,2\n1,3\n\n4,2,3,1\n"Candidate 1","Ann A","Party X"\n"Candidate 2","Bob B","P, Y"\n"Candidate 3","Cy","Z"\n"Ward 7"\n')
tryit('scot', lambda: (lambda r: (show(r[0]), r[1:]))(load_scottish(sc)))
