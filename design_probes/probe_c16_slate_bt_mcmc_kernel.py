import sys, os, itertools, warnings
sys.path[:0] = ['/repo/src', os.path.join(os.path.dirname(os.path.abspath(__file__)),'stubs')]
warnings.filterwarnings('ignore')
import numpy as real_np
from votekit import PreferenceInterval
import votekit.ballot_generator as bg

class ScriptRandom:
    def __init__(self): self.script=[]
    def random(self): return self.script.pop(0)
class NpRandomProxy:
    def __init__(self): self.script=[]
    def choice(self, a, size=None, **kw): return real_np.array(self.script.pop(0))
    def __getattr__(self, n): return getattr(real_np.random, n)
class NpProxy:
    def __init__(self): self.random=NpRandomProxy()
    def __getattr__(self, n): return getattr(real_np, n)
fr=ScriptRandom(); fnp=NpProxy(); bg.random=fr; bg.np=fnp

def kernel_check(coh):
    s2c={'X':['A','B'],'Y':['C','D']}
    pib={b:{'X':PreferenceInterval({'A':.5,'B':.5}),'Y':PreferenceInterval({'C':.5,'D':.5})} for b in s2c}
    g=bg.slate_BradleyTerry(slate_to_candidates=s2c,pref_intervals_by_bloc=pib,bloc_voter_prop={'X':.5,'Y':.5},cohesion_parameters={'X':{'X':coh,'Y':1-coh},'Y':{'X':.5,'Y':.5}})
    states=sorted(set(itertools.permutations(['X','X','Y','Y'])))
    seed=('X','X','Y','Y'); L=4
    def path_to(target):
        # adjacent swaps turning seed into target (bubble)
        cur=list(seed); swaps=[]
        for i in range(L):
            if cur[i]!=target[i]:
                j=next(k for k in range(i+1,L) if cur[k]==target[i])
                for k in range(j,i,-1):
                    cur[k-1],cur[k]=cur[k],cur[k-1]; swaps.append(k-1)
        return swaps
    def step_from(state, j, u):
        sw=path_to(state)
        fnp.random.script=[sw+[j]]; fr.script=[0.0]*len(sw)+[u]     # u=0.0 forces acceptance on the way
        out=g._sample_ballot_types_MCMC('X', len(sw)+1)
        if len(sw): assert tuple(out[len(sw)-1])==tuple(state), (out, state)
        return tuple(out[-1])
    def acc(state,j):
        t=list(state); t[j],t[j+1]=t[j+1],t[j]; t=tuple(t)
        if t==tuple(state): return 1.0, t
        if step_from(state,j,1-2**-40)==t: return 1.0,t
        if step_from(state,j,2**-40)!=t: return 0.0,t
        lo,hi=0.0,1.0
        for _ in range(45):
            mid=(lo+hi)/2
            if step_from(state,j,mid)==t: lo=mid
            else: hi=mid
        return (lo+hi)/2, t
    def w(pt):
        succ=sum(pt[i+1:].count('Y') for i,b in enumerate(pt) if b=='X'); return coh**succ*(1-coh)**(4-succ)
    Z=sum(w(s) for s in states); pi={s:w(s)/Z for s in states}
    K={s:{t:0.0 for t in states} for s in states}
    for s in states:
        for j in range(L-1):
            a,t=acc(s,j); K[s][t]+=a/(L-1); K[s][s]+=(1-a)/(L-1)
    err=max(abs(sum(pi[s]*K[s][t] for s in states)-pi[t]) for t in states)
    print(f'cohesion {coh}: stationarity error {err:.3e}; table-vs-definition {max(abs(g.ballot_type_pdf["X"][s]-pi[s]) for s in states):.1e}')
for c in (0.8, 0.6, 0.3):
    kernel_check(c)
