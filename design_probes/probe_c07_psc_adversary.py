import sys, io, contextlib, random as _r, collections, itertools
sys.path[:0] = ['/repo/src', __import__('os').path.join(__import__('os').path.dirname(__import__('os').path.abspath(__file__)),'stubs')]
from fractions import Fraction as F
from votekit import Ballot, PreferenceProfile
import votekit.utils as U, votekit.elections.transfers as T
from votekit.elections import *

class Adv:
    """adversary against coalition S: tie orders put S members last when electing, and... (order semantic: first = best)"""
    def __init__(self, S, mode): self.S=set(S); self.mode=mode; self.n=0
    def sample(self, pop, k):
        self.n+=1
        pop=list(pop)
        if pop and isinstance(pop[0], Ballot):
            # random transfer: prefer ballots NOT solid for S (top |S| != S)
            def solid(b):
                r=[next(iter(s)) for s in b.ranking]
                return 0 if True else 0
            key=lambda b:(tuple(tuple(sorted(x)) for x in b.ranking))
            s=sorted(pop,key=key)
            # non-coalition first: ballots whose next choices start with non-S
            s.sort(key=lambda b: (next(iter(b.ranking[0])) in self.S))
            return s[:k]
        s=sorted(pop)
        if self.mode=='adv':
            s.sort(key=lambda c: c in self.S)   # non-members first (best), members last (eliminated)
        elif self.mode=='desc': s=s[::-1]
        return s[:k]

def solid_weight(p, S):
    S=set(S); w=F(0)
    for b in p.ballots:
        r=[next(iter(s)) for s in b.ranking]
        if len(r)>=len(S) and set(r[:len(S)])==S: w+=b.weight
    return w

rng=_r.Random(21); names=list('ABCDEF'); stats=collections.Counter(); bad=[]
for i in range(1200):
    n=rng.randint(2,6); cs=names[:n]; bl=[]
    # planted coalition
    S0=rng.sample(cs, rng.randint(1,min(3,n)))
    rest=[c for c in cs if c not in S0]
    for _ in range(rng.randint(1,4)):
        head=rng.sample(S0,len(S0)); tail=rng.sample(rest, rng.randint(0,len(rest)))
        bl.append(Ballot(ranking=tuple(frozenset({c}) for c in head+tail), weight=rng.randint(1,6)))
    for _ in range(rng.randint(0,5)):
        k=rng.randint(1,n); bl.append(Ballot(ranking=tuple(frozenset({c}) for c in rng.sample(cs,k)), weight=rng.randint(1,6)))
    p=PreferenceProfile(ballots=tuple(bl), candidates=tuple(cs)); m=rng.randint(1,n)
    sim=rng.random()<0.5; tb=rng.choice([None,'random','borda']); tr=rng.choice([fractional_transfer, random_transfer])
    for r in range(1,n+1):
        for S in itertools.combinations(cs,r):
            W=solid_weight(p,S)
            q=int(p.total_ballot_wt/(m+1))+1
            k=int(W/q)
            if k<1: continue
            need=min(k,len(S),m)
            for mode in ('adv','asc','desc'):
                f=Adv(S,mode); U.random=f; T.random=f
                try:
                    with contextlib.redirect_stdout(io.StringIO()):
                        e=STV(p,m=m,transfer=tr,simultaneous=sim,tiebreak=tb)
                except Exception as ex:
                    stats['exc:'+type(ex).__name__]+=1; continue
                el={c for s in e.get_elected() for c in s}
                stats['checked']+=1
                if len(el&set(S))<need:
                    bad.append((i,S,str(W),q,need,sorted(el),mode,sim,tb,tr.__name__))
print(stats); print(len(bad), bad[:5])
