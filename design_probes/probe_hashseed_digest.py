import sys, hashlib, json, io, contextlib
sys.path[:0] = ['/repo/src', __import__('os').path.join(__import__('os').path.dirname(__import__('os').path.abspath(__file__)),'stubs')]
from fractions import Fraction as F
from votekit import Ballot, PreferenceProfile
from votekit.elections import *
from votekit.utils import *
import random
rng = random.Random(7)
names = ['A','B','C','D','E']
def canon(e):
    out=[]
    for s in e.election_states:
        out.append([s.round_number, [sorted(x) for x in s.remaining], [sorted(x) for x in s.elected], [sorted(x) for x in s.eliminated],
                    sorted((k,str(v)) for k,v in s.scores.items()), sorted((sorted(k), [sorted(x) for x in v]) for k,v in s.tiebreaks.items())])
    return out
dig = hashlib.sha256()
nrand=0
for i in range(200):
    nb = rng.randint(1,7); bl=[]
    for _ in range(nb):
        k = rng.randint(1,5); bl.append(Ballot(ranking=tuple(frozenset({c}) for c in rng.sample(names,k)), weight=F(rng.randint(1,6), rng.choice([1,1,1,2,3]))))
    p = PreferenceProfile(ballots=tuple(bl), candidates=tuple(names))
    m = rng.randint(1,4)
    for mk in (lambda: STV(p,m=m), lambda: STV(p,m=m,simultaneous=False,tiebreak='borda'), lambda: Plurality(p,m=m,tiebreak='borda'), lambda: Borda(p,m=m,tiebreak='first_place'),
               lambda: CondoBorda(p,m=m), lambda: DominatingSets(p), lambda: TopTwo(p,tiebreak='borda'), lambda: Alaska(p,m_1=max(m,2),m_2=min(m,2),tiebreak='borda')):
        buf = io.StringIO()
        random.seed(0)
        st = random.getstate()
        try:
            with contextlib.redirect_stdout(buf):
                e = mk()
            c = canon(e)
        except Exception as ex:
            c = ['EXC', type(ex).__name__]
        used_random = random.getstate() != st
        if used_random: nrand+=1; c='RANDOM'
        dig.update(json.dumps(c).encode())
print(dig.hexdigest()[:16], 'random-used', nrand)
