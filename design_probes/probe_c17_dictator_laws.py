import sys, os, io, contextlib, random, collections, itertools, time
sys.path[:0] = ['/repo/src', os.path.join(os.path.dirname(os.path.abspath(__file__)),'stubs')]
from fractions import Fraction as F
import numpy as np
from scipy.stats import binom
from votekit import Ballot, PreferenceProfile
from votekit.elections import RandomDictator, BoostedRandomDictator, Plurality, STV

def pmap(ballots):  # list of (ranking as tuple of frozensets, weight)
    return ballots
def fp_shares(ballots, cands):
    sh={c:F(0) for c in cands}
    tot=sum(w for r,w in ballots)
    for r,w in ballots:
        top=r[0]
        for c in top: sh[c]+=F(w)/len(top)
    return {c:v/tot for c,v in sh.items()}, tot
def remove(ballots, x):
    out=[]
    for r,w in ballots:
        nr=tuple(s-{x} for s in r); nr=tuple(s for s in nr if s)
        if nr: out.append((nr,w))
    return out
def rd_law(ballots, cands, m, boosted=False):
    """distribution over election sequences"""
    law=collections.defaultdict(float)
    def rec(bl, cs, seq, p):
        if len(seq)==m: law[tuple(seq)]+=p; return
        sh,_=fp_shares(bl, cs)
        if boosted:
            c=len(cs)
            if c==1: probs={cs[0]:1.0}
            else:
                a=1/(c-1); sq={k:float(v)**2 for k,v in sh.items()}; z=sum(sq.values())
                probs={k:(1-a)*float(sh[k])+a*sq[k]/z for k in cs}
        else: probs={k:float(v) for k,v in sh.items()}
        for k,pk in probs.items():
            if pk>0: rec(remove(bl,k), [x for x in cs if x!=k], seq+[k], p*pk)
    rec(ballots, list(cands), [], 1.0); return law
def test(name, law, counts, n):
    worst=1.0; wc=None
    for cell,p in law.items():
        k=counts.get(cell,0); tail=min(1.0,2*min(binom.cdf(k,n,p), binom.sf(k-1,n,p)))
        if tail<worst: worst,wc=tail,(cell,k,round(n*p,1))
    print(f'{name:22s} n={n} cells={len(law)} worst p={worst:.2e} at {wc} unexpected={[c for c in counts if c not in law][:3]}')

fs=frozenset
cands=('A','B','C','D')
ballots=[((fs('A'),fs('B'),fs('C'),fs('D')),5),((fs('BC'),fs('A'),fs('D')),F(7,2)),((fs('C'),fs('D'),fs('B'),fs('A')),1),((fs('D'),fs('ABC')),2),((fs('B'),fs('A'),fs('D'),fs('C')),1)]
p=PreferenceProfile(ballots=tuple(Ballot(ranking=r,weight=w) for r,w in ballots), candidates=cands)
random.seed(1); np.random.seed(1)
for cls,boost in ((RandomDictator,False),(BoostedRandomDictator,True)):
    for m in (1,2):
        n=3000; cnt=collections.Counter(); t=time.time()
        with contextlib.redirect_stdout(io.StringIO()):
            for _ in range(n):
                e=cls(p,m); cnt[tuple(next(iter(s)) for s in e.get_elected())]+=1
        test(f'{cls.__name__} m={m}', rd_law(ballots,cands,m,boost), cnt, n); print('  s', round(time.time()-t,1))
# tie uniformity: Plurality 3-way boundary tie
bl=[((fs(c),),2) for c in 'ABC']+[((fs('D'),),5)]
p2=PreferenceProfile(ballots=tuple(Ballot(ranking=r,weight=w) for r,w in bl), candidates=cands)
cnt=collections.Counter(); n=3000
with contextlib.redirect_stdout(io.StringIO()):
    for _ in range(n):
        e=Plurality(p2,m=2,tiebreak='random'); cnt[tuple(sorted(c for s in e.get_elected() for c in s))]+=1
test('Plurality tie', {('A','D'):1/3,('B','D'):1/3,('C','D'):1/3}, cnt, n)
