import sys
sys.path[:0] = ['/repo/src', __import__('os').path.join(__import__('os').path.dirname(__import__('os').path.abspath(__file__)),'stubs')]
from fractions import Fraction as F
from votekit import Ballot, PreferenceProfile
from votekit.utils import *
from votekit.elections import *
import traceback

def R(*cs): return tuple(frozenset(c) if isinstance(c,(set,frozenset,tuple,list)) else frozenset({c}) for c in cs)

def tryit(label, f):
    try:
        r = f()
        print(label, '->', r)
    except Exception as e:
        print(label, 'EXC', type(e).__name__, e)

# C04: exactness of 3-way tie
p = PreferenceProfile(ballots=(Ballot(ranking=(frozenset({'A','B','C'}),), weight=1),), candidates=('A','B','C'))
tryit('fpv 3-tie', lambda: first_place_votes(p))
p = PreferenceProfile(ballots=(Ballot(ranking=R('A'), weight=1),), candidates=('A','B','C','D'))
tryit('borda unlisted 3', lambda: borda_scores(p))
tryit('score vec [3,1,0] unlisted', lambda: score_profile_from_rankings(p,[3,1,0,0]))

# C11 condense asymmetry
b1 = Ballot(ranking=R('A','B'), weight=1)
b2 = Ballot(ranking=R('A','B'), weight=2, scores={'A':1})
tryit('condense [unscored, scored]', lambda: PreferenceProfile(ballots=(b1,b2)).condense_ballots().ballots)
tryit('condense [scored, unscored]', lambda: PreferenceProfile(ballots=(b2,b1)).condense_ballots().ballots)
tryit('eq', lambda: (PreferenceProfile(ballots=(b1,b2)) == PreferenceProfile(ballots=(b2,b1))))

# C09 STV default-election replay
p = PreferenceProfile(ballots=(Ballot(ranking=R('A'), weight=3),Ballot(ranking=R('B'), weight=2),Ballot(ranking=R('C'), weight=1)), candidates=('A','B','C','D'))
def stv_default():
    e = STV(p, m=3)
    out=[]
    for i,s in enumerate(e.election_states):
        out.append((i, s.elected, s.eliminated, s.remaining, dict(s.scores)))
    print(out)
    for i in range(len(e.election_states)):
        pr = e.get_profile(i)
        print(i, pr.candidates, [ (b.ranking,b.weight) for b in pr.ballots])
tryit('stv default', stv_default)
