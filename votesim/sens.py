"""Sensitivity self-test: hand-written mutants of /repo/src applied to a scratch copy (under $TMPDIR,
removed afterwards); each must be flagged by the check of the property it breaks.

usage: python -m votesim.sens [mutant-id ...] [--runs N] [--list]
"""
import json
import os
import shutil
import subprocess
import sys
import tempfile

from .core.boot import VERIF

SRC = "/repo/src"

# id -> (property, relative file, old, new, note)
MUTANTS = {
    "stv-elect-strict": ("C02", "votekit/elections/election_types/ranking/stv.py",
                         "if prev_state.scores[c] >= self.threshold:", "if prev_state.scores[c] > self.threshold:", "elect on > instead of >="),
    "droop-no-plus1": ("C02", "votekit/elections/election_types/ranking/stv.py",
                       "return int(total_ballot_wt / (self.m + 1) + 1)", "return int(total_ballot_wt / (self.m + 1))", "Droop without +1"),
    "transfer-value": ("C02", "votekit/elections/transfers.py",
                       "transfer_value = (fpv - threshold) / fpv", "transfer_value = (fpv - threshold) / threshold", "transfer value (t-q)/q"),
    "elim-first": ("C02", "votekit/elections/election_types/ranking/stv.py",
                   "eliminated_cand = list(tiebroken_ranking[-1])[0]", "eliminated_cand = list(tiebroken_ranking[0])[0]", "eliminate the first of the tiebroken order"),
    "plurality-silent-tiebreak": ("C10", "votekit/utils.py",
                                  "                    (ranking[i], tiebroken_ranking),\n", "                    None,\n", "boundary tiebreak not recorded"),
    "borda-tiebreak-uses-fpv": ("C10", "votekit/utils.py",
                                "        if tiebreak == \"borda\":\n            tiebreak_scores = borda_scores(profile)", "        if tiebreak == \"borda\":\n            tiebreak_scores = first_place_votes(profile)", "'borda' tiebreak orders by first-place votes"),
    "fallback-whole-set": ("C10", "votekit/utils.py",
                           "        new_ranking, _ = tiebroken_ranking(\n            new_ranking, profile=profile, tiebreak=\"random\"\n        )",
                           "        new_ranking = tuple(frozenset({c}) for c in random.sample(list(r_set), k=len(r_set)))", "scored tiebreak falls back to a random order of the whole set"),
    "hidden-draw": ("C10", "votekit/utils.py",
                    "    num_elected = 0\n    elected = []\n    i = 0\n",
                    "    num_elected = 0\n    elected = []\n    i = 0\n    if tiebreak == \"random\":\n        ranking = tuple(frozenset({c}) for s in ranking for c in random.sample(sorted(s), len(s)))\n",
                    "tiebreak='random' silently pre-breaks every tie without recording it"),
    "none-elects-arbitrarily": ("C01", "votekit/utils.py",
                                "            if not tiebreak:\n                raise ValueError(\n                    \"Cannot elect correct number of candidates without breaking ties.\"\n                )\n            else:",
                                "            if not tiebreak:\n                tiebreak = \"random\"\n            if True:", "tiebreak=None silently breaks a boundary tie at random instead of raising"),
    "alaska-stv-on-full": ("C13", "votekit/elections/election_types/ranking/alaska.py",
                           "            stv = STV(\n                profile,\n                self.m_2,\n                self.transfer,\n                self.quota,\n                self.simultaneous,\n                self.tiebreak,\n            )\n            new_profile = stv.get_profile()",
                           "            stv = STV(\n                self._profile,\n                self.m_2,\n                self.transfer,\n                self.quota,\n                self.simultaneous,\n                self.tiebreak,\n            )\n            new_profile = stv.get_profile()",
                           "Alaska runs its STV stage on the full profile"),
    "seqrcv-fractional": ("C13", "votekit/elections/election_types/ranking/stv.py",
                          "                lambda winner, fpv, ballots, threshold: remove_cand(\n                    winner, tuple(ballots)\n                )",
                          "                lambda winner, fpv, ballots, threshold: fractional_transfer(\n                    winner, fpv, ballots, threshold\n                )",
                          "SequentialRCV transfers fractionally"),
    "irv-ignores-quota": ("C13", "votekit/elections/election_types/ranking/stv.py",
                          "super().__init__(profile, m=1, quota=quota, tiebreak=tiebreak)", "super().__init__(profile, m=1, quota=\"droop\", tiebreak=tiebreak)", "IRV ignores quota="),
    "toptwo-no-reallocation": ("C13", "votekit/elections/election_types/ranking/top_two.py",
                               "            new_profile = remove_cand([c for s in eliminated for c in s], profile)\n",
                               "            _keep = [c for s in remaining for c in s]\n            new_profile = remove_cand([c for s in eliminated for c in s], PreferenceProfile(ballots=tuple(b for b in profile.ballots if b.ranking and list(b.ranking[0])[0] in _keep), candidates=profile.candidates))\n",
                               "TopTwo drops (instead of reallocating) ballots whose first choice was eliminated"),
    "sntv-m-minus": ("C13", "votekit/elections/election_types/ranking/plurality.py",
                     "        super().__init__(profile, m, tiebreak)", "        super().__init__(profile, max(1, m - 1) if m > 2 else m, tiebreak)", "SNTV elects m-1 when m>2"),
    "get-elected-offbyone": ("C09", "votekit/models.py",
                             "                for state in self.election_states[: (round_number + 1)]\n                for s in state.elected",
                             "                for state in self.election_states[: max(round_number, 1)]\n                for s in state.elected",
                             "get_elected(r) stops one round early"),
    "stv-replay-stores": ("C09", "votekit/elections/election_types/ranking/stv.py",
                          "        if store_states:\n            if self.score_function:\n                scores = self.score_function(new_profile)\n\n            remaining = score_dict_to_ranking(scores)",
                          "        if True:\n            if self.score_function:\n                scores = self.score_function(new_profile)\n\n            remaining = score_dict_to_ranking(scores)",
                          "STV._run_step stores a state even when replaying"),
    "status-neg-index": ("C09", "votekit/models.py",
                         "        round_number = round_number % len(self.election_states)\n\n        new_index = [c for s in self.get_ranking(round_number) for c in s]",
                         "        new_index = [c for s in self.get_ranking(round_number) for c in s]",
                         "get_status_df does not normalise negative indices"),
    "stv-replay-final-elected": ("C09", "votekit/elections/election_types/ranking/stv.py",
                                 "[c for s in self.get_elected(prev_state.round_number) for c in s]", "[c for s in self.get_elected() for c in s]",
                                 "re-introduce the fixed defect: replay uses the final elected set"),
    "elim-tie-hash-order": ("C08", "votekit/elections/election_types/ranking/stv.py",
                            "            if len(lowest_fpv_cands) > 1:\n", "            if len(lowest_fpv_cands) > 1 and self.tiebreak == \"__never__\":\n",
                            "elimination ties resolved by set iteration order (hash-seed dependent), unrecorded"),
    "residual-tie-by-name": ("C08", "votekit/utils.py",
                             "        new_ranking, _ = tiebroken_ranking(\n            new_ranking, profile=profile, tiebreak=\"random\"\n        )",
                             "        new_ranking = tuple(frozenset({c}) for s in new_ranking for c in sorted(s))",
                             "residual ties of a scored tiebreak resolved alphabetically (not neutral)"),
    "residual-tie-by-listing": ("C08", "votekit/utils.py",
                                "        new_ranking, _ = tiebroken_ranking(\n            new_ranking, profile=profile, tiebreak=\"random\"\n        )",
                                "        new_ranking = tuple(frozenset({c}) for s in new_ranking for c in sorted(s, key=lambda x: profile.candidates.index(x) if profile else 0))",
                                "residual ties resolved by position in the candidate tuple"),
    "random-k-minus-1": ("C03", "votekit/elections/transfers.py",
                         "        min(int(fpv) - threshold, len(transferable_ballots)),", "        max(0, min(int(fpv) - threshold, len(transferable_ballots)) - 1),", "random transfer moves one ballot too few"),
    "random-from-all": ("C03", "votekit/elections/transfers.py",
                        "    transferable_ballots = [b for b in winner_ballots if b.ranking]\n", "    transferable_ballots = [b for b in winner_ballots if b.ranking is not None or b.weight > 0][:winner_index]\n", "random transfer draws from all of the winner's ballots incl. exhausted ones"),
    "random-biased-prefix": ("C03", "votekit/elections/transfers.py",
                             "    surplus_ballots = random.sample(\n        transferable_ballots,\n        min(int(fpv) - threshold, len(transferable_ballots)),\n    )",
                             "    surplus_ballots = transferable_ballots[: min(int(fpv) - threshold, len(transferable_ballots))]", "random transfer takes a prefix instead of a uniform sample"),
    "frac-float-value": ("C03", "votekit/elections/transfers.py",
                         "    transfer_value = (fpv - threshold) / fpv\n", "    transfer_value = float(fpv - threshold) / float(fpv)\n", "fractional transfer value through float"),
    "frac-keeps-winner-lower": ("C03", "votekit/elections/transfers.py",
                                "            # remove winner from ballot\n            new_ranking = tuple(\n                [frozenset([c for c in s if c != winner]) for s in ballot.ranking]\n            )\n            new_ranking = tuple([s for s in new_ranking if len(s) != 0])\n\n            transfered_ballots[i]",
                                "            # remove winner from ballot\n            new_ranking = tuple(\n                [frozenset([c for c in s if c != winner]) for s in ballot.ranking]\n            ) if ballot.ranking[0] == {winner} else ballot.ranking\n            new_ranking = tuple([s for s in new_ranking if len(s) != 0])\n\n            transfered_ballots[i]",
                                "fractional transfer leaves the winner on ballots it does not lead"),
    "simul-drop-double-elected": ("C07", "votekit/elections/election_types/ranking/stv.py",
                                  "        cleaned_ballots = remove_cand(\n            [c for s in elected for c in s],\n            tuple([b for b in new_ballots if b.ranking]),\n        )",
                                  "        cleaned_ballots = remove_cand(\n            [c for s in elected for c in s],\n            tuple([b for b in new_ballots if b.ranking and list(b.ranking[0])[0] not in [c for s in elected for c in s]]),\n        )",
                                  "simultaneous election: surplus ballots whose next choice was elected in the same round are dropped instead of moving on"),
    "transfer-half": ("C07", "votekit/elections/transfers.py",
                      "    transfer_value = (fpv - threshold) / fpv\n", "    transfer_value = (fpv - threshold) / fpv / 2\n", "fractional transfer passes on half the surplus"),
    "elim-second-lowest": ("C02", "votekit/elections/election_types/ranking/stv.py",
                           "            lowest_fpv_cands = prev_state.remaining[-1]\n", "            lowest_fpv_cands = prev_state.remaining[-2] if len(prev_state.remaining) > 2 else prev_state.remaining[-1]\n",
                           "eliminates the second-lowest group when three or more groups remain"),
    "rd-unweighted": ("C17", "votekit/elections/election_types/ranking/random_dictator.py",
                      "        random_ballot = random.choices(ballots, weights=weights, k=1)[0]", "        random_ballot = random.choices(ballots, k=1)[0]", "RandomDictator ignores ballot weights"),
    "brd-threshold": ("C17", "votekit/elections/election_types/ranking/boosted_random_dictator.py",
                      "        elif u <= 1 / (len(remaining_cands) - 1):", "        elif u <= 1 / len(remaining_cands):", "BRD uses probability 1/c for the squares branch"),
    "brd-no-square": ("C17", "votekit/elections/election_types/ranking/boosted_random_dictator.py",
                      "            p = np.power(p, 2)\n", "            p = np.power(p, 1)\n", "BRD squares branch is proportional, not proportional-to-squares"),
    "tiebreak-first-stays": ("C17", "votekit/utils.py",
                             "            frozenset({c}) for c in random.sample(list(r_set), k=len(r_set))\n",
                             "            frozenset({c}) for c in (lambda x: x[:1] + random.sample(x[1:], k=len(x) - 1))(sorted(r_set))\n",
                             "random tiebreak always puts the alphabetically first candidate first"),
    "csv-rank-cols-sorted": ("C18", "votekit/cvr_loaders.py",
                             "        ranks = [df.columns[i] for i in rank_cols]\n", "        ranks = [df.columns[i] for i in sorted(rank_cols)]\n", "load_csv ignores the order of rank_cols"),
    "csv-skip-dup-id-check": ("C18", "votekit/cvr_loaders.py",
                              "    if id_col is not None and not df.iloc[:, id_col].is_unique:", "    if id_col is not None and len(df) > 1 and df.iloc[0, id_col] == df.iloc[1, id_col]:", "duplicate voter ids only detected in the first two rows"),
    "csv-dropna-groups": ("C18", "votekit/cvr_loaders.py",
                          "    grouped = df.groupby(ranks, dropna=False)", "    grouped = df.groupby(ranks)", "rows with blank cells are silently dropped"),
    "scot-weight-int-division": ("C18", "votekit/cvr_loaders.py",
                                 "        ballot_weight = Fraction(line[0])\n", "        ballot_weight = Fraction(line[0] if line[0] < 100 else 100)\n", "Scottish ballot multiplicities capped at 100"),
}


# law-preserving refactorings: the listed checks must stay QUIET on them (false-alarm guard).
# id -> (comma-separated checks, relative file, old, new, note)
REFACTORS = {
    "ok-random-transfer-samples-indices": ("C02,C03,C07,C01", "votekit/elections/transfers.py",
        "    surplus_ballots = random.sample(\n        transferable_ballots,\n        min(int(fpv) - threshold, len(transferable_ballots)),\n    )",
        "    _idx = random.sample(\n        range(len(transferable_ballots)),\n        min(int(fpv) - threshold, len(transferable_ballots)),\n    )\n    surplus_ballots = [transferable_ballots[i] for i in _idx]",
        "random transfer samples indices instead of ballot objects"),
    "ok-tiebreak-by-shuffle": ("C10,C17,C02,C01", "votekit/utils.py",
        "        new_ranking = tuple(\n            frozenset({c}) for c in random.sample(list(r_set), k=len(r_set))\n        )",
        "        _lst = list(r_set)\n        random.shuffle(_lst)\n        new_ranking = tuple(frozenset({c}) for c in _lst)",
        "random tiebreak shuffles a list instead of sampling a permutation"),
    "ok-get-step-returns-copy": ("C09", "votekit/models.py",
        "        return (self.get_profile(round_number), self.election_states[round_number])",
        "        import dataclasses as _dc\n\n        return (self.get_profile(round_number), _dc.replace(self.election_states[round_number]))",
        "get_step returns a copy of the recorded state"),
    "ok-skip-empty-surplus-draw": ("C02,C03", "votekit/elections/transfers.py",
        "    transferable_ballots = [b for b in winner_ballots if b.ranking]\n",
        "    transferable_ballots = [b for b in winner_ballots if b.ranking]\n    if int(fpv) - threshold <= 0:\n        transferable_ballots = []\n",
        "random transfer short-circuits when there is no surplus"),
    "ok-rd-draws-candidate-directly": ("C17,C01", "votekit/elections/election_types/ranking/random_dictator.py",
        "        random_ballot = random.choices(ballots, weights=weights, k=1)[0]\n",
        "        _order = random.choices(range(len(ballots)), weights=weights, k=1)[0]\n        random_ballot = ballots[_order]\n",
        "RandomDictator draws the ballot's index instead of the ballot"),
    "ok-spatial-sqrt-of-squared-differences": ("C16,C14", "votekit/ballot_generator.py",
        "            distance_dict = {\n                c: self.distance(voter_positions[v], c_position)\n                for c, c_position in candidate_position_dict.items()\n            }",
        "            distance_dict = {\n                c: (\n                    float(np.sqrt(np.sum((voter_positions[v] - c_position) ** 2)))\n                    if self.distance is euclidean_dist\n                    else self.distance(voter_positions[v], c_position)\n                )\n                for c, c_position in candidate_position_dict.items()\n            }",
        "Spatial computes the Euclidean distance as sqrt(sum(diff^2)) from the exact differences (last-bit differences from np.linalg.norm at most)"),
    "ok-tiebreak-samples-sorted-candidates": ("C17,C10", "votekit/utils.py",
        "        new_ranking = tuple(\n            frozenset({c}) for c in random.sample(list(r_set), k=len(r_set))\n        )",
        "        new_ranking = tuple(\n            frozenset({c}) for c in random.sample(sorted(r_set), k=len(r_set))\n        )",
        "random tiebreak samples from the sorted candidate list"),
}


def apply_mutant(mid, dst):
    if mid in REFACTORS:
        prop, rel, old, new, note = REFACTORS[mid]
        p = os.path.join(dst, rel)
        s = open(p).read()
        if old not in s:
            raise SystemExit(f"refactor {mid}: pattern not found in {rel}")
        open(p, "w").write(s.replace(old, new, 1))
        return prop
    prop, rel, old, new, note = MUTANTS[mid]
    p = os.path.join(dst, rel)
    s = open(p).read()
    if old not in s:
        raise SystemExit(f"mutant {mid}: pattern not found in {rel}")
    open(p, "w").write(s.replace(old, new, 1))
    return prop


def run_mutant(mid, runs):
    scratch = tempfile.mkdtemp(prefix="vk-mut-")
    try:
        dst = os.path.join(scratch, "src")
        shutil.copytree(SRC, dst, ignore=shutil.ignore_patterns("__pycache__"))
        prop = apply_mutant(mid, dst)
        env = dict(os.environ, VOTEKIT_SRC=dst)
        # evidence/replays of the real tree must not be overwritten by a mutant run
        rc, lines = 0, []
        for pr in prop.split(","):
            p = subprocess.run([os.path.join(VERIF, "check"), pr, "--runs", str(runs), "--tier", "quick"], env=dict(env, VOTESIM_OUT=scratch),
                               capture_output=True, text=True)
            lines += [pr + " " + ln for ln in p.stdout.splitlines() if ln.startswith("VIOLATION") or ln.startswith("  sig=") or ln.startswith("HARNESS")]
            rc = max(rc, p.returncode)
        return prop, rc, lines
    finally:
        shutil.rmtree(scratch, ignore_errors=True)


def main(argv):
    runs = 1500
    ids = []
    it = iter(argv)
    for a in it:
        if a == "--runs":
            runs = int(next(it))
        elif a == "--list":
            for k, v in MUTANTS.items():
                print(k, v[0], v[4])
            return 0
        else:
            ids.append(a)
    if ids == ["refactors"]:
        ids = list(REFACTORS)
    ids = ids or list(MUTANTS) + list(REFACTORS)
    missed = 0
    for mid in ids:
        prop, rc, lines = run_mutant(mid, runs)
        if mid in REFACTORS:
            ok = rc == 0
            missed += 0 if ok else 1
            print(f"{'QUIET ' if ok else 'FALSE-ALARM'} {mid} on {prop} (rc={rc}): {REFACTORS[mid][4]}")
            for ln in lines[:4]:
                print("    " + ln[:260])
            continue
        caught = rc == 1
        missed += 0 if caught else 1
        print(f"{'CAUGHT' if caught else 'MISSED'} {mid} by {prop} (rc={rc}): {MUTANTS[mid][4]}")
        for ln in lines[:4]:
            print("    " + ln[:260])
    return 1 if missed else 0


if __name__ == "__main__":
    sys.exit(main(sys.argv[1:]))
