"""Seeded parameter swarm for the ballot generators, and the builder that instantiates them on the real code."""
from fractions import Fraction

from .profiles import wchoice

BLOC_NAMES = ["A", "B", "C"]
GENERATORS = (
    "ImpartialCulture", "ImpartialAnonymousCulture", "BallotSimplex_from_point",
    "name_PlackettLuce", "short_name_PlackettLuce", "name_BradleyTerry", "name_BradleyTerry_MCMC",
    "slate_BradleyTerry", "slate_BradleyTerry_MCMC", "AlternatingCrossover", "CambridgeSampler",
    "name_Cumulative", "slate_PlackettLuce", "OneDimSpatial", "Spatial", "ClusteredSpatial",
)
TWO_BLOC = ("AlternatingCrossover", "CambridgeSampler")
AT_MOST_TWO = ("slate_BradleyTerry", "slate_BradleyTerry_MCMC")
NO_BLOCS = ("ImpartialCulture", "ImpartialAnonymousCulture", "BallotSimplex_from_point", "OneDimSpatial", "Spatial", "ClusteredSpatial")


def simplex(rng, k, denom=20, allow_zero=True):
    """k non-negative multiples of 1/denom summing to 1 (as floats); zero and one entries are biased in"""
    if k == 1:
        return [1.0]
    mode = wchoice(rng, [("any", 6), ("zero", 2 if allow_zero else 0), ("near", 2)])
    if mode == "zero":
        parts = [0] * k
        rest = denom
        idx = list(range(k))
        rng.shuffle(idx)
        for i in idx[: k - 1]:
            parts[i] = rng.randint(0, rest) if rng.random() < 0.5 else 0
            rest -= parts[i]
        parts[idx[-1]] = rest
    elif mode == "near":
        base = denom // k
        parts = [base] * k
        parts[0] += denom - base * k
        if k >= 2 and parts[0] > 1:
            i, j = rng.sample(range(k), 2)
            parts[i] += 1
            parts[j] -= 1
    else:
        cuts = sorted(rng.randint(0 if allow_zero else 1, denom - (0 if allow_zero else 1)) for _ in range(k - 1))
        parts = [b - a for a, b in zip([0] + cuts, cuts + [denom])]
    if not allow_zero:
        parts = [max(1, p) for p in parts]
        parts[parts.index(max(parts))] -= sum(parts) - denom
    out = [p / denom for p in parts]
    if k >= 2 and rng.random() < 0.12:
        # a hair's breadth: shift 2e-9 from one entry to another (still sums to 1 within the documented 8-decimal check);
        # exact handling of the given numbers decides near-ties, and a positive share may be as small as 4e-9
        i, j = rng.sample(range(k), 2)
        if out[i] > 1e-6:
            e = rng.choice([2e-9, 4e-9])
            out[i] -= e
            out[j] += e
    return out


SEPARATOR_NAMES = ["Lin\x1fWu", "a,b", "x|y", "p;q", "u\tv", "d:e", "s/t", "o o", "(q)", "'r'", "k-z", "m.n"]


def gen_case(rng, gens=GENERATORS, max_total=6):
    gen = rng.choice(list(gens))
    N = wchoice(rng, [(1, 2), (2, 2), (3, 2), (5, 2), (17, 3), (100, 1), (rng.randint(4, 60), 4), (rng.choice([250, 999, 1000, 1001]), 0.4)])
    case = {"gen": gen, "N": N, "by_bloc": rng.random() < 0.6}
    if gen in NO_BLOCS:
        n = rng.randint(1, 5 if gen in ("ImpartialCulture", "ImpartialAnonymousCulture", "BallotSimplex_from_point") else 6)
        cands = ["c%d" % i for i in range(n)]
        if rng.random() < 0.15:
            # names carrying the characters people join and split on (unit separator, tab, comma, pipe, ...)
            cands = rng.sample(SEPARATOR_NAMES, n)
        rng.shuffle(cands)
        case["candidates"] = cands
        if gen == "BallotSimplex_from_point":
            pt = simplex(rng, n, denom=8, allow_zero=rng.random() < 0.15)
            case["point"] = dict(zip(cands, pt))
        if gen in ("Spatial", "ClusteredSpatial"):
            case["defaults"] = rng.random() < 0.3
            case["dim"] = rng.randint(1, 3)
            # candidates drawn from a coarse grid: several of them co-located, i.e. exactly equidistant from every voter
            case["grid"] = (not case["defaults"]) and rng.random() < 0.15
            if gen == "ClusteredSpatial":
                per = [rng.randint(0, 8) for _ in cands]
                if sum(per) == 0:
                    per[0] = 1
                case["per_candidate"] = dict(zip(cands, per))
                case["N"] = sum(per)
        return case
    nb = 2 if gen in TWO_BLOC else rng.randint(1, 2) if gen in AT_MOST_TWO else wchoice(rng, [(1, 2), (2, 5), (3, 3)])
    blocs = BLOC_NAMES[:nb]
    sizes = [rng.randint(1, 3) for _ in blocs]
    while sum(sizes) > max_total:
        sizes[sizes.index(max(sizes))] -= 1
    slates = {b: ["%s%d" % (b.lower(), i + 1) for i in range(s)] for b, s in zip(blocs, sizes)}
    if rng.random() < 0.3:
        # candidate names of very different lengths (and with spaces): anything that stores names in fixed-width arrays shows here
        pools = {"A": ["Al", "Bo", "Cy"], "B": ["Charlotte", "Dominique St-Pierre", "Ev"], "C": ["x", "Maximilian", "Zoë Q"]}
        if rng.random() < 0.3:
            pools = {"A": ["Lin\x1fWu", "a,b", "x|y"], "B": ["p;q", "u\tv", "d:e"], "C": ["s/t", "o o", "(q)"]}
        slates = {b: pools[b][:s] for b, s in zip(blocs, sizes)}
    if rng.random() < 0.1:
        # a ticket named after its lead candidate: the first candidate of every slate carries the slate's name
        slates = {b: [b] + list(v[1:]) for b, v in slates.items()}
    props = dict(zip(blocs, simplex(rng, nb)))
    if gen == "CambridgeSampler":
        # needs a majority bloc; the default picks the first bloc with prop >= .5
        if not any(v >= 0.5 for v in props.values()):
            props = dict(zip(blocs, [0.5, 0.5]))
    cohesion = {b: dict(zip(blocs, simplex(rng, nb))) for b in blocs}
    intervals = {}
    for b in blocs:
        intervals[b] = {}
        for s in blocs:
            vals = [rng.choice([0, 0.1, 0.2, 0.5, 1, 1, 2, 5]) if rng.random() < 0.35 else rng.choice([0.2, 0.5, 1, 2, 3]) for _ in slates[s]]
            if len(vals) >= 2 and rng.random() < 0.08:
                # strictly positive but tiny supports: still supported candidates, to be ranked, never tied or dropped
                for i in rng.sample(range(len(vals)), rng.randint(1, 2)):
                    vals[i] = rng.choice([1e-9, 2e-9, 3e-9])
            if not any(v > 0 for v in vals):
                vals[rng.randrange(len(vals))] = 1
            items = list(zip(slates[s], vals))
            if rng.random() < 0.5:
                rng.shuffle(items)  # the interval's key order need not be the slate's listing order
            intervals[b][s] = dict(items)
    # the parameter dictionaries are keyed by bloc / slate name: nothing promises that they list the blocs in the same order
    def reorder(d):
        items = list(d.items())
        if rng.random() < 0.5:
            rng.shuffle(items)
        return dict(items)

    if nb >= 2:
        cohesion = reorder({b: reorder(row) for b, row in cohesion.items()})
        intervals = reorder({b: reorder(d) for b, d in intervals.items()})
        if gen != "CambridgeSampler":
            slates = reorder(slates)
            props = reorder(props)
    case.update(slates=slates, props=props, cohesion=cohesion, intervals=intervals)
    case["decoy"] = rng.random() < 0.3
    if gen == "CambridgeSampler" and rng.random() < 0.5:
        # the historical W / C roles given explicitly, in either assignment (the W bloc need not be the larger one)
        wc = list(blocs)
        rng.shuffle(wc)
        case["wc"] = wc
    if rng.random() < 0.12:
        # construct through BallotGenerator.from_params: intervals drawn from Dirichlet(alpha) via numpy's default_rng
        # (OS entropy unless patched -- the seam that makes this repeatable)
        case["from_params"] = {b: {s_: rng.choice([0.5, 1, 2, 10]) for s_ in blocs} for b in blocs}
    n = sum(sizes)
    if gen == "short_name_PlackettLuce":
        case["ballot_length"] = rng.randint(1, n)
    if gen == "name_Cumulative":
        case["num_votes"] = rng.randint(1, 5)
    return case


def _l1(v, c):
    import numpy as np

    return float(np.abs(np.asarray(v, dtype=float) - np.asarray(c, dtype=float)).sum())


def _directional(v, c):
    """an asymmetric cost: a candidate on the positive side of the voter costs three times as much (distance(voter, candidate))"""
    import numpy as np

    d = np.asarray(c, dtype=float) - np.asarray(v, dtype=float)
    return float(np.where(d > 0, 3 * d, -d).sum())


DISTANCES = {"l1": _l1, "directional": _directional}


_DECOYS = []


def decoy_case(case):
    """same generator class, same bloc / slate / candidate names, different numbers: cohesion rows, interval values and
    proportions reversed.  A second live generator built from it must not change what the first one samples."""
    d = {k: v for k, v in case.items() if k not in ("decoy", "_drawn_intervals")}

    def rev(m):
        ks = list(m)
        return dict(zip(ks, [m[k] for k in reversed(ks)]))

    d["cohesion"] = {b: rev(row) for b, row in case["cohesion"].items()}
    d["intervals"] = {b: {s: rev(iv) for s, iv in dd.items()} for b, dd in case["intervals"].items()}
    if case["gen"] != "CambridgeSampler":
        d["props"] = rev(case["props"])
    return d


def build(case):
    """-> thunk that generates the profile.  With case['decoy'], a second generator of the same class and names but other
    parameters is constructed AFTER the first and kept alive while the first one samples (two live generators: any table kept
    on the class, in a module global or in a shared default argument shows)."""
    fn = _build(case)
    if case.get("decoy") and "slates" in case and not case.get("from_params"):
        del _DECOYS[:]
        try:
            _DECOYS.append(_build(decoy_case(case)))
        except Exception:
            pass
    return fn


def _build(case):
    """-> callable producing the generator's raw output; raises whatever the real code raises"""
    import numpy as np
    import votekit.ballot_generator as bg
    from votekit.pref_interval import PreferenceInterval

    gen = case["gen"]
    N = case["N"]
    if gen == "ImpartialCulture":
        g = bg.ImpartialCulture(candidates=list(case["candidates"]))
        return lambda: g.generate_profile(N)
    if gen == "ImpartialAnonymousCulture":
        g = bg.ImpartialAnonymousCulture(candidates=list(case["candidates"]))
        return lambda: g.generate_profile(N)
    if gen == "BallotSimplex_from_point":
        g = bg.BallotSimplex.from_point(point=dict(case["point"]), candidates=list(case["candidates"]))
        return lambda: g.generate_profile(N)
    if gen == "OneDimSpatial":
        g = bg.OneDimSpatial(candidates=list(case["candidates"]))
        return lambda: g.generate_profile(N)
    if gen == "Spatial":
        if case.get("defaults"):
            g = bg.Spatial(candidates=list(case["candidates"]))
        else:
            d = case.get("dim", 2)
            extra = {"distance": DISTANCES[case["distance"]]} if case.get("distance") else {}
            off = float(case.get("offset", 0.0))  # positions far from the origin relative to their spread (map coordinates)
            if case.get("grid"):
                g = bg.Spatial(candidates=list(case["candidates"]), voter_dist=np.random.normal, voter_dist_kwargs={"loc": off, "scale": 1.0, "size": d},
                               candidate_dist=np.random.randint, candidate_dist_kwargs={"low": int(off), "high": int(off) + 2, "size": d}, **extra)
                return lambda: g.generate_profile(N)
            g = bg.Spatial(candidates=list(case["candidates"]), voter_dist=np.random.normal, voter_dist_kwargs={"loc": off, "scale": 1.0, "size": d},
                           candidate_dist=np.random.uniform, candidate_dist_kwargs={"low": off - 1.0, "high": off + 1.0, "size": d}, **extra)
        return lambda: g.generate_profile(N)
    if gen == "ClusteredSpatial":
        if case.get("defaults"):
            g = bg.ClusteredSpatial(candidates=list(case["candidates"]))
        else:
            d = case.get("dim", 2)
            extra = {"distance": DISTANCES[case["distance"]]} if case.get("distance") else {}
            off = float(case.get("offset", 0.0))
            if case.get("grid"):
                g = bg.ClusteredSpatial(candidates=list(case["candidates"]), voter_dist=np.random.normal, voter_dist_kwargs={"scale": 0.5, "size": d},
                                        candidate_dist=np.random.randint, candidate_dist_kwargs={"low": int(off), "high": int(off) + 2, "size": d}, **extra)
                per = dict(case["per_candidate"])
                return lambda: g.generate_profile_with_dict(per)
            g = bg.ClusteredSpatial(candidates=list(case["candidates"]), voter_dist=np.random.normal, voter_dist_kwargs={"scale": 0.5, "size": d},
                                    candidate_dist=np.random.uniform, candidate_dist_kwargs={"low": off, "high": off + 1.0, "size": d}, **extra)
        per = dict(case["per_candidate"])
        return lambda: g.generate_profile_with_dict(per)
    slates = {b: list(v) for b, v in case["slates"].items()}
    if case.get("from_params"):
        cls = {"name_PlackettLuce": bg.name_PlackettLuce, "short_name_PlackettLuce": bg.short_name_PlackettLuce, "name_BradleyTerry": bg.name_BradleyTerry,
               "name_BradleyTerry_MCMC": bg.name_BradleyTerry, "slate_BradleyTerry": bg.slate_BradleyTerry, "slate_BradleyTerry_MCMC": bg.slate_BradleyTerry,
               "AlternatingCrossover": bg.AlternatingCrossover, "CambridgeSampler": bg.CambridgeSampler, "name_Cumulative": bg.name_Cumulative,
               "slate_PlackettLuce": bg.slate_PlackettLuce}[gen]
        extra = {}
        if gen == "short_name_PlackettLuce":
            extra["ballot_length"] = case["ballot_length"]
        if gen == "name_Cumulative":
            extra["num_votes"] = case["num_votes"]
        g = cls.from_params(slate_to_candidates=slates, bloc_voter_prop=dict(case["props"]),
                            cohesion_parameters={b: dict(v) for b, v in case["cohesion"].items()},
                            alphas={b: dict(v) for b, v in case["from_params"].items()}, **extra)
        # the intervals the generator drew, for the oracle
        case["_drawn_intervals"] = {b: {s_: {c: float(iv.interval.get(c, 0.0)) for c in slates[s_]} for s_, iv in d.items()} for b, d in g.pref_intervals_by_bloc.items()}
        by_bloc = case["by_bloc"]
        if gen.endswith("MCMC") and gen.startswith("name"):
            return lambda: g.generate_profile_MCMC(N, by_bloc=by_bloc)
        if gen.endswith("MCMC"):
            return lambda: g.generate_profile(N, by_bloc=by_bloc, deterministic=False)
        return lambda: g.generate_profile(N, by_bloc=by_bloc)
    kw = dict(
        slate_to_candidates=slates,
        bloc_voter_prop=dict(case["props"]),
        cohesion_parameters={b: dict(v) for b, v in case["cohesion"].items()},
        pref_intervals_by_bloc={b: {s: PreferenceInterval(dict(iv)) for s, iv in d.items()} for b, d in case["intervals"].items()},
    )
    by_bloc = case["by_bloc"]
    if gen == "name_PlackettLuce":
        g = bg.name_PlackettLuce(**kw)
    elif gen == "short_name_PlackettLuce":
        g = bg.short_name_PlackettLuce(ballot_length=case["ballot_length"], **kw)
    elif gen in ("name_BradleyTerry", "name_BradleyTerry_MCMC"):
        g = bg.name_BradleyTerry(**kw)
        if gen.endswith("MCMC"):
            return lambda: g.generate_profile_MCMC(N, by_bloc=by_bloc)
    elif gen in ("slate_BradleyTerry", "slate_BradleyTerry_MCMC"):
        g = bg.slate_BradleyTerry(**kw)
        if gen.endswith("MCMC"):
            return lambda: g.generate_profile(N, by_bloc=by_bloc, deterministic=False)
    elif gen == "AlternatingCrossover":
        g = bg.AlternatingCrossover(**kw)
    elif gen == "CambridgeSampler":
        wc = case.get("wc")
        g = bg.CambridgeSampler(W_bloc=wc[0], C_bloc=wc[1], **kw) if wc else bg.CambridgeSampler(**kw)
    elif gen == "name_Cumulative":
        g = bg.name_Cumulative(num_votes=case["num_votes"], **kw)
    elif gen == "slate_PlackettLuce":
        g = bg.slate_PlackettLuce(**kw)
    else:
        raise ValueError(gen)
    return lambda: g.generate_profile(N, by_bloc=by_bloc)


def combined_interval(case, bloc):
    """reference combined interval of a voter bloc: supports normalised per slate, scaled by cohesion"""
    out = {}
    for s, iv in (case.get("_drawn_intervals") or case["intervals"])[bloc].items():
        tot = sum(iv.values())
        for c, v in iv.items():
            out[c] = (v / tot) * case["cohesion"][bloc][s]
    return out


def zero_cands(case, bloc, combined=True):
    if combined:
        return sorted(c for c, v in combined_interval(case, bloc).items() if v == 0)
    return sorted(c for s, iv in (case.get("_drawn_intervals") or case["intervals"])[bloc].items() for c, v in iv.items() if v == 0)
