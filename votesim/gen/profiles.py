"""Seeded workload generators (swarm style) for profiles and rule configurations, and the
profile-level reduction steps used by the minimiser.  Lists and sorted containers only."""
from fractions import Fraction

from ..core.canon import fs

NAME_FAMILIES = {
    "plain": ["A", "B", "C", "D", "E", "F", "G", "H", "I", "J", "K", "L", "M", "N"],
    # listing order, sort order and (very likely) hash order all disagree
    "disorder": ["b", "A", "c10", "c9", "Z", "a", "_x", "B2", "aa"],
    "odd": ["Ann Lee", "O'Neil", "x,y", "Ünal", 'q"t', " lead", "Z z", "d.e", "K-9"],
    # names that are substrings / prefixes of one another (a membership test on a *string* instead of a list shows here)
    "nested": ["Jo", "Joan", "Ann", "Anne", "1", "10", "Joanna", "A", "AA"],
}

STV_FAMILY = ("STV", "IRV", "SequentialRCV")
SCORE_RULES = ("GeneralRating", "Rating", "Limited", "Cumulative", "Approval", "BlocPlurality")
TIED_OK = ("Plurality", "SNTV", "Borda", "RandomDictator", "BoostedRandomDictator", "DominatingSets", "CondoBorda", "TopTwo")
ALL_RULES = (
    "STV", "IRV", "SequentialRCV", "Plurality", "SNTV", "Borda", "TopTwo", "Alaska", "DominatingSets",
    "CondoBorda", "RandomDictator", "BoostedRandomDictator", "PluralityVeto",
    "GeneralRating", "Rating", "Limited", "Cumulative", "Approval", "BlocPlurality",
)


def wchoice(rng, pairs):
    items = [p[0] for p in pairs]
    ws = [p[1] for p in pairs]
    return rng.choices(items, weights=ws, k=1)[0]


def gen_weight(rng, fam):
    if fam == "ones":
        return Fraction(1)
    if fam == "small":
        return Fraction(rng.randint(1, 3))
    if fam == "mid":
        return Fraction(rng.randint(1, 9))
    if fam == "big":
        return Fraction(rng.choice([rng.randint(1, 10**6), 10**rng.randint(2, 6), rng.randint(1, 50)]))
    if fam == "rat":
        return Fraction(rng.randint(1, 12), rng.choice([1, 2, 3, 4, 5, 6]))
    if fam == "huge":
        # beyond float64's 53-bit mantissa: any detour through floats rounds these
        return Fraction(rng.randint(1, 5) * 2**60 + rng.choice([0, 0, 1, -1, 3]))
    if fam == "hugemix":
        # a few equal huge weights (so that tallies tie exactly) next to unit-sized ones: score differences far below
        # the float resolution of the totals (ulp(2^62) = 1024), which only exact arithmetic keeps apart
        return Fraction(rng.choice([2**60, 2**60, 2**61, 10**18, 10**18, 1, 1, 2, 3]))
    raise ValueError(fam)


def gen_names(rng, n):
    fam = wchoice(rng, [("plain", 6), ("disorder", 3), ("odd", 1), ("nested", 1.5)])
    if n > len(NAME_FAMILIES[fam]):
        fam = "plain"
    names = list(NAME_FAMILIES[fam][:n])
    if rng.random() < 0.5:
        rng.shuffle(names)
    return names, fam


def gen_ranked_profile(rng, *, allow_ties=False, int_weights=False, min_c=1, max_c=6, max_ballots=10, unit_cap=None, tie_bias=0.0):
    """-> (jprofile, shape)   ballots are ranked; ties inside positions only if allow_ties"""
    if max_c > 9:
        # "large" mode: realistic scale for the count rules (10-14 candidates, dozens of distinct ballots)
        n = rng.randint(10, max_c)
        max_ballots = 60
    else:
        n = wchoice(rng, [(k, w) for k, w in zip(range(1, 10), [1, 3, 5, 6, 5, 3, 1, 0.5, 0.5]) if min_c <= k <= max_c])
    if n >= 7:
        max_ballots = max(max_ballots, 18)
    names, fam = gen_names(rng, n)
    wfam = wchoice(rng, [("ones", 3), ("small", 4), ("mid", 3), ("big", 1), ("huge", 0.4), ("hugemix", 0.5)] + ([] if int_weights else [("rat", 3)]))
    if unit_cap and wfam in ("big", "huge", "hugemix"):
        wfam = "mid"
    law = wchoice(rng, [("mixed", 5), ("full", 3), ("bullet", 2), ("sym", 2)])
    if tie_bias and rng.random() < tie_bias:
        # tie pressure: equal weights and symmetric / bullet-heavy ballots make tallies collide
        wfam = "ones"
        law = wchoice(rng, [("sym", 3), ("bullet", 2), ("mixed", 2)])
    ghosts = []
    if n >= 2 and rng.random() < 0.25:
        ghosts = rng.sample(names, rng.randint(1, min(2, n - 1)))
    live = [c for c in names if c not in ghosts]
    nb = wchoice(rng, [(0, 1)] + [(k, 4) for k in range(1, max_ballots + 1)]) if max_c <= 9 else rng.randint(20, max_ballots)
    ballots = []
    if law == "sym" and len(live) >= 2:
        base = list(live)
        rng.shuffle(base)
        w = gen_weight(rng, wfam)
        L = rng.randint(1, len(base))
        for i in range(len(base)):
            rot = base[i:] + base[:i]
            ballots.append(([[c] for c in rot[:L]], w))
        for _ in range(rng.choice([0, 0, 1, 2])):
            k = rng.randint(1, len(live))
            ballots.append(([[c] for c in rng.sample(live, k)], gen_weight(rng, wfam)))
    else:
        for _ in range(nb):
            if law == "full":
                k = len(live)
            elif law == "bullet":
                k = 1 if rng.random() < 0.7 else rng.randint(1, len(live))
            else:
                k = rng.randint(1, len(live))
            perm = rng.sample(live, k)
            r = [[c] for c in perm]
            if allow_ties and k >= 2 and rng.random() < 0.3:
                i = rng.randrange(k - 1)
                r = r[:i] + [sorted(perm[i : i + 2])] + r[i + 2 :]
            ballots.append((r, gen_weight(rng, wfam)))
    eps = False
    if not int_weights and len(ballots) >= 2 and rng.random() < 0.06:
        # exact-arithmetic probe: move 1e-20 of weight from one ballot to another (total unchanged, so the threshold is too).
        # A tally that sat exactly on a threshold or in a tie is now off by less than any float can see.
        i, j = rng.sample(range(len(ballots)), 2)
        e = Fraction(1, 10**20)
        if ballots[i][1] > e:
            ballots[i] = (ballots[i][0], ballots[i][1] - e)
            ballots[j] = (ballots[j][0], ballots[j][1] + e)
            eps = True
    zero_w = False
    if ballots and rng.random() < 0.02:
        i = rng.randrange(len(ballots))
        ballots[i] = (ballots[i][0], Fraction(0))
        zero_w = True
    if rng.random() < 0.3:
        rng.shuffle(ballots)
    jp = {
        "candidates": names,
        "ballots": [{"r": r, "w": fs(w)} for r, w in ballots],
    }
    used = {c for r, w in ballots if w > 0 for g in r for c in g}
    if used == set(names) and rng.random() < 0.2:
        # let the profile infer its candidates from the ballots (same set; the listing then comes out of a set)
        jp["infer"] = True
    shape = {"n": n, "names": fam, "wfam": wfam, "law": law, "ghosts": len(ghosts), "nb": len(ballots), "zero_w": zero_w, "eps": eps}
    return jp, shape


def score_limits(rule, m, cfg_rng):
    """(L, k) limits the rule will enforce for seat count m"""
    if rule in ("Approval",):
        return 1, None
    if rule == "BlocPlurality":
        return 1, m
    if rule in ("Cumulative", "Limited"):
        return m, m
    L = cfg_rng.choice([1, 2, 3, 5])
    if rule == "GeneralRating":
        k = cfg_rng.choice([None, L, L + 1, 2 * L])
        return L, k
    return L, None


def gen_score_profile(rng, L, k, n, *, max_ballots=8, rational=True):
    """score ballots respecting the per-candidate limit L and (if not None) the budget k"""
    names, fam = gen_names(rng, n)
    wfam = wchoice(rng, [("ones", 3), ("small", 4), ("mid", 2), ("rat", 2)])
    nb = wchoice(rng, [(0, 1)] + [(j, 4) for j in range(1, max_ballots + 1)])
    ballots = []
    sym = rng.random() < 0.25
    for _ in range(nb):
        sc = {}
        budget = None if k is None else Fraction(k)
        for c in rng.sample(names, rng.randint(1, n)):
            if sym:
                v = Fraction(1)
            elif rational and rng.random() < 0.15:
                v = Fraction(rng.randint(1, 2 * L), 2)
            else:
                v = Fraction(rng.randint(1, L))
            v = min(v, Fraction(L))
            if budget is not None:
                v = min(v, budget)
            if v <= 0:
                break
            sc[c] = v
            if budget is not None:
                budget -= v
        if sc:
            ballots.append({"r": None, "w": fs(gen_weight(rng, wfam)), "s": {c: fs(Fraction(v)) for c, v in sc.items()}})
    jp = {"candidates": names, "ballots": ballots}
    return jp, {"n": n, "names": fam, "wfam": wfam, "nb": len(ballots), "law": "sym" if sym else "scores"}


TIEBREAKS = [None, "random", "borda", "first_place"]


def gen_subulp_profile(rng, names):
    """A set T of candidates made exactly level at a huge weight W (every rotation of T heads one ballot of weight W, so
    first-place and Borda totals of T agree to the last digit), plus a few unit-sized ballots that separate their scores by
    far less than the float resolution of the totals (ulp(2^62) = 1024): only exact arithmetic orders them."""
    n = len(names)
    t = rng.randint(2, min(3, n))
    T = rng.sample(names, t)
    rest = [c for c in names if c not in T]
    W = rng.choice([2**60, 10**18, 3 * 2**59, 2**62])
    bs = []
    for i in range(t):
        rot = T[i:] + T[:i]
        tail = rng.sample(rest, rng.randint(0, len(rest)))
        bs.append(([[c] for c in rot + tail], W))
    if rest and rng.random() < 0.5:
        o = rng.choice(rest)
        others = [c for c in names if c != o]
        bs.append(([[o]] + [[c] for c in rng.sample(others, rng.randint(0, len(others)))], rng.choice([W // 2, W, 2 * W])))
    for _ in range(rng.randint(1, 3)):
        first = rng.choice(rest) if rest and rng.random() < 0.7 else rng.choice(names)
        others = [c for c in names if c != first]
        bs.append(([[first]] + [[c] for c in rng.sample(others, rng.randint(0, len(others)))], rng.randint(1, 3)))
    rng.shuffle(bs)
    return {"candidates": list(names), "ballots": [{"r": r, "w": fs(Fraction(w))} for r, w in bs]}


def gen_partial_elim_profile(rng, names):
    """single-seat count in which, after the first elimination(s), three candidates are level on the lowest tally T while
    their INITIAL first-place tallies separate them only partly (T, T-d, T-d): the documented rule eliminates one of the two
    lower-initial candidates, by a recorded random draw between exactly those two."""
    A, B, C, D, X = rng.sample(names, 5)
    rest = [c for c in names if c not in (A, B, C, D, X)]
    d = rng.randint(1, 3)
    T = rng.randint(3 * d + 1, 3 * d + 6)
    xw = rng.randint(T + 1, 2 * T)

    def tail(pool, k):
        return [[c] for c in rng.sample(pool, min(k, len(pool)))]

    bs = [([[A]] + tail([X] + rest, rng.randint(0, 1)), T), ([[B]] + tail([X] + rest, rng.randint(0, 1)), T - d), ([[C]] + tail([X] + rest, rng.randint(0, 1)), T - d),
          ([[X]] + tail(rest, 1), xw)]
    if rng.random() < 0.5 or not rest:
        bs += [([[D], [B]], d), ([[D], [C]], d)]
    else:
        E = rest[0]
        bs += [([[D], [B]], d), ([[E], [C]], d)]
    rng.shuffle(bs)
    cands = list(names)
    rng.shuffle(cands)
    return {"candidates": cands, "ballots": [{"r": r, "w": fs(Fraction(w))} for r, w in bs]}


def gen_level_winners_profile(rng, names):
    """two candidates cross the quota together on exactly equal tallies with a positive surplus, and each one's ballots name the
    other next (A>B>X, B>A>Y): the order in which the two surpluses are processed must not matter.  m = 3."""
    A, B, X, Y = rng.sample(names, 4)
    rest = [c for c in names if c not in (A, B, X, Y)]
    w = rng.randint(6, 12)
    # X and Y stay below the quota (x, y <= (w-1)/2 < q), so what each of them inherits decides the last seat in a later round
    x = rng.randint(1, max(1, (w - 1) // 2))
    y = rng.randint(1, max(1, (w - 1) // 2))
    bs = [([A, B, X] + rng.sample(rest, rng.randint(0, len(rest))), w), ([B, A, Y] + rng.sample(rest, rng.randint(0, len(rest))), w),
          ([X] + rng.sample([Y] + rest, rng.randint(0, 1)), x), ([Y] + rng.sample([X] + rest, rng.randint(0, 1)), y)]
    if rng.random() < 0.4:
        # split one of the level piles into two entries (same total)
        k = rng.randint(1, w - 1)
        bs[0] = (bs[0][0], k)
        bs.append(([A, B, Y], w - k))
    rng.shuffle(bs)
    cands = list(names)
    rng.shuffle(cands)
    return {"candidates": cands, "ballots": [{"r": [[c] for c in r], "w": fs(Fraction(wt))} for r, wt in bs]}


def gen_orbit_profile(rng, names):
    """Two disjoint pairs (A,B), (C,D); every ballot comes with its images under the swaps A<->B and C<->D at the same weight, so
    A,B are level on EVERY score and so are C,D; one base ballot is led by A and one by C at the same weight, which levels all
    four on first-place votes while (short ballots, different tails) their Borda scores differ between the pairs: a scored
    tiebreak separates the tie into two groups that each stay tied."""
    n = len(names)
    A, B, C, D = rng.sample(names, 4)
    rest = [c for c in names if c not in (A, B, C, D)]

    def orbit(r):
        sw1 = {A: B, B: A}
        sw2 = {C: D, D: C}
        out = []
        for f in (lambda x: x, lambda x: sw1.get(x, x), lambda x: sw2.get(x, x), lambda x: sw2.get(sw1.get(x, x), sw1.get(x, x))):
            out.append([f(x) for x in r])
        return out

    w = rng.randint(1, 4)
    bases = []
    for lead in (A, C):
        others = [c for c in names if c != lead]
        bases.append(([lead] + rng.sample(others, rng.randint(0, n - 1)), w))
    for _ in range(rng.randint(0, 2)):
        pool = rest if rest and rng.random() < 0.7 else names
        lead = rng.choice(pool)
        others = [c for c in names if c != lead]
        bases.append(([lead] + rng.sample(others, rng.randint(0, n - 1)), rng.randint(1, 3)))
    bs = []
    for r, wt in bases:
        for img in orbit(r):
            bs.append(([[c] for c in img], wt))
    rng.shuffle(bs)
    cands = list(names)
    rng.shuffle(cands)
    return {"candidates": cands, "ballots": [{"r": r, "w": fs(Fraction(wt))} for r, wt in bs]}


def gen_rule_case(rng, rules=ALL_RULES, *, max_c=6, tiebreaks=TIEBREAKS, tie_bias=0.0, pairwise_ties=False, subulp=0.02, orbit=0.025, level=0.03):
    """-> case dict {rule, kw, profile, shape}.  Only configurations the rule documents."""
    rule = rng.choice(list(rules))
    cfg = {}
    if rule in SCORE_RULES:
        n = wchoice(rng, [(j, w) for j, w in zip(range(1, 8), [1, 3, 5, 6, 5, 3, 1]) if j <= max_c])
        m = rng.randint(1, n)
        L, k = score_limits(rule, m, rng)
        jp, shape = gen_score_profile(rng, L, k, n)
        tb = rng.choice([None, "random"])
        cfg = {"m": m, "tiebreak": tb}
        if rule in ("GeneralRating",):
            cfg.update(L=L, k=k)
        elif rule == "Rating":
            cfg.update(L=L)
        elif rule == "Limited":
            cfg.update(k=m)
        return {"rule": rule, "kw": cfg, "profile": jp, "shape": shape}
    if rule in ("DominatingSets", "CondoBorda"):
        max_c = min(max_c, 6)  # ballot_fill enumerates every permutation of the unlisted candidates: keep the cost bounded
    allow_ties = rule in ("Plurality", "SNTV", "Borda", "RandomDictator", "BoostedRandomDictator") and rng.random() < 0.5
    if pairwise_ties and rule in ("DominatingSets", "CondoBorda"):
        allow_ties = rng.random() < 0.5  # tied positions are accepted by the pairwise rules (a tie = no preference)
    if rule == "PluralityVeto":
        allow_ties = rng.random() < 0.3
    int_w = rule == "PluralityVeto"
    min_c = 2 if rule == "TopTwo" else 1
    transfer = None
    if rule in ("STV", "Alaska"):
        transfer = wchoice(rng, [("fractional", 3), ("random", 2)])
        if transfer == "random":
            int_w = True
    jp, shape = gen_ranked_profile(rng, allow_ties=allow_ties, int_weights=int_w, min_c=min_c, max_c=max_c, unit_cap=(rule == "PluralityVeto" or transfer == "random"), tie_bias=tie_bias)
    n = len(jp["candidates"])
    m = rng.randint(1, n)
    tb = rng.choice(list(tiebreaks))
    if rule in ("STV", "SequentialRCV"):
        cfg = {"m": m, "quota": wchoice(rng, [("droop", 3), ("hare", 1)]), "simultaneous": rng.random() < 0.5, "tiebreak": tb}
        if rule == "STV":
            cfg["transfer"] = transfer
    elif rule == "IRV":
        cfg = {"quota": wchoice(rng, [("droop", 3), ("hare", 1)]), "tiebreak": tb}
    elif rule in ("Plurality", "SNTV", "Borda"):
        cfg = {"m": m, "tiebreak": tb}
        if rule == "Borda" and rng.random() < 0.3:
            # custom positional vectors (shorter, equal or longer than the candidate list; non-increasing, non-negative)
            L = rng.choice([max(1, n - 1), n, n + 1])
            vec = sorted([rng.choice([0, 1, 1, 2, 3, 5]) for _ in range(L)], reverse=True)
            if any(vec):
                cfg["score_vector"] = vec
    elif rule == "TopTwo":
        cfg = {"tiebreak": tb}
    elif rule == "Alaska":
        m1 = rng.randint(1, n)
        m2 = rng.randint(1, m1)
        cfg = {"m_1": m1, "m_2": m2, "transfer": transfer, "quota": wchoice(rng, [("droop", 3), ("hare", 1)]), "simultaneous": rng.random() < 0.5, "tiebreak": tb}
    elif rule == "DominatingSets":
        cfg = {}
    elif rule == "CondoBorda":
        cfg = {"m": m}
    elif rule in ("RandomDictator", "BoostedRandomDictator"):
        cfg = {"m": m}
    elif rule == "PluralityVeto":
        cfg = {"m": m, "tiebreak": rng.choice(["random", "borda", "first_place"]) if allow_ties else rng.choice([None, "random"])}
    if subulp and n >= 3 and "tiebreak" in cfg and rule != "PluralityVeto" and transfer != "random" and rng.random() < subulp:
        jp = gen_subulp_profile(rng, jp["candidates"])
        if set(tiebreaks) & {"borda", "first_place"}:
            cfg["tiebreak"] = rng.choice(sorted(set(tiebreaks) & {"borda", "first_place"}))
        shape = dict(shape, law="subulp", wfam="hugemix", nb=len(jp["ballots"]), ghosts=0, zero_w=0, eps=False)
    if rule in ("STV", "IRV", "SequentialRCV") and n >= 5 and transfer != "random" and rng.random() < 0.03:
        jp = gen_partial_elim_profile(rng, jp["candidates"])
        if "m" in cfg:
            cfg["m"] = 1
        cfg["quota"] = "droop"
        shape = dict(shape, law="partial-elim-tie", wfam="small", nb=len(jp["ballots"]), ghosts=0, zero_w=0, eps=False)
    elif rule in ("STV", "SequentialRCV") and n >= 4 and transfer != "random" and rng.random() < level:
        jp = gen_level_winners_profile(rng, jp["candidates"])
        cfg["m"] = 3
        cfg["quota"] = "droop"
        cfg["simultaneous"] = rng.random() < 0.8
        shape = dict(shape, law="level-winners", wfam="small", nb=len(jp["ballots"]), ghosts=0, zero_w=0, eps=False)
    elif orbit and n >= 4 and "tiebreak" in cfg and rule != "PluralityVeto" and transfer != "random" and rng.random() < orbit:
        jp = gen_orbit_profile(rng, jp["candidates"])
        if set(tiebreaks) & {"borda", "first_place"}:
            cfg["tiebreak"] = rng.choice(sorted(set(tiebreaks) & {"borda", "first_place"}))
        shape = dict(shape, law="orbit", wfam="small", nb=len(jp["ballots"]), ghosts=0, zero_w=0, eps=False)
    return {"rule": rule, "kw": cfg, "profile": jp, "shape": shape}


def build_election(case):
    """instantiate the rule of `case` on the real code (may raise)"""
    import votekit.elections as E
    from ..core.canon import build_profile

    p = build_profile(case["profile"])
    kw = dict(case["kw"])
    if "transfer" in kw:
        t = kw.pop("transfer")
        if t is not None:
            kw["transfer"] = {"fractional": E.fractional_transfer, "random": E.random_transfer}[t]
    cls = getattr(E, case["rule"])
    return cls(p, **kw), p


# ------------------------------------------------------------------------------ reduction steps


def _fix_infer(jp):
    if jp.get("infer"):
        used = {c for b in jp["ballots"] if Fraction(b["w"]) > 0 for g in (b.get("r") or []) for c in g} | {c for b in jp["ballots"] for c in (b.get("s") or {})}
        if used != set(jp["candidates"]):
            jp = {k: v for k, v in jp.items() if k != "infer"}
    return jp


def shrink_profile_steps(jp):
    for x in _shrink_profile_steps(jp):
        if jp.get("infer"):
            x = _fix_infer(dict(x, infer=True))
        yield x
    if jp.get("infer"):
        yield {k: v for k, v in jp.items() if k != "infer"}


def _shrink_profile_steps(jp):
    """yield structurally smaller variants of a JSON profile (most aggressive first)"""
    bs = jp["ballots"]
    cands = jp["candidates"]
    n = len(bs)
    # drop halves, then single ballots
    if n >= 4:
        yield {"candidates": cands, "ballots": bs[: n // 2]}
        yield {"candidates": cands, "ballots": bs[n // 2 :]}
    for i in range(n):
        yield {"candidates": cands, "ballots": bs[:i] + bs[i + 1 :]}
    # drop a candidate everywhere
    if cands is not None and len(cands) > 1:
        for c in cands:
            nbs = []
            for b in bs:
                nb = dict(b)
                if b.get("r") is not None:
                    r = [[x for x in pos if x != c] for pos in b["r"]]
                    r = [pos for pos in r if pos]
                    if not r and not b.get("s"):
                        continue
                    nb["r"] = r if r else None
                if b.get("s"):
                    s = {k: v for k, v in b["s"].items() if k != c}
                    if not s and nb.get("r") is None:
                        continue
                    nb["s"] = s or None
                nbs.append(nb)
            yield {"candidates": [x for x in cands if x != c], "ballots": nbs}
    # truncate rankings
    for i, b in enumerate(bs):
        if b.get("r") and len(b["r"]) > 1:
            nb = dict(b)
            nb["r"] = b["r"][:-1]
            yield {"candidates": cands, "ballots": bs[:i] + [nb] + bs[i + 1 :]}
    # split tied positions
    for i, b in enumerate(bs):
        if b.get("r"):
            for j, pos in enumerate(b["r"]):
                if len(pos) > 1:
                    nb = dict(b)
                    nb["r"] = b["r"][:j] + [[x] for x in pos] + b["r"][j + 1 :]
                    yield {"candidates": cands, "ballots": bs[:i] + [nb] + bs[i + 1 :]}
    # weights -> 1, then smaller
    if any(b["w"] != "1" for b in bs):
        yield {"candidates": cands, "ballots": [dict(b, w="1") for b in bs]}
    for i, b in enumerate(bs):
        if b["w"] != "1":
            yield {"candidates": cands, "ballots": bs[:i] + [dict(b, w="1")] + bs[i + 1 :]}
            w = Fraction(b["w"])
            if w.denominator != 1:
                yield {"candidates": cands, "ballots": bs[:i] + [dict(b, w=fs(Fraction(int(w) + 1)))] + bs[i + 1 :]}
            elif w > 2:
                yield {"candidates": cands, "ballots": bs[:i] + [dict(b, w=fs(w - 1))] + bs[i + 1 :]}
    # canonical names
    plain = NAME_FAMILIES["plain"]
    if cands is not None and len(cands) > len(plain):
        plain = ["C%02d" % i for i in range(len(cands))]
    if cands is not None and any(c not in plain[: len(cands)] for c in cands):
        mp = {c: plain[i] for i, c in enumerate(cands)}
        nbs = []
        for b in bs:
            nb = dict(b)
            if b.get("r") is not None:
                nb["r"] = [[mp[x] for x in pos] for pos in b["r"]]
            if b.get("s"):
                nb["s"] = {mp[k]: v for k, v in b["s"].items()}
            nbs.append(nb)
        yield {"candidates": [mp[c] for c in cands], "ballots": nbs}


def shrink_rule_case_steps(case):
    """reduction steps for {rule, kw, profile}: profile steps (keeping m valid) + config -> defaults"""
    kw = case["kw"]
    for jp in shrink_profile_steps(case["profile"]):
        n = len(jp["candidates"])
        if n == 0:
            continue
        nkw = dict(kw)
        ok = True
        for key in ("m", "m_1", "m_2"):
            if key in nkw and nkw[key] > n:
                nkw[key] = n
        if "m_1" in nkw and nkw["m_2"] > nkw["m_1"]:
            nkw["m_2"] = nkw["m_1"]
        if case["rule"] == "TopTwo" and n < 2:
            ok = False
        if case["rule"] in ("Limited",) and "k" in nkw and "m" in nkw and nkw["k"] > nkw["m"]:
            ok = False
        if case["rule"] in ("Cumulative", "Limited", "BlocPlurality") and nkw.get("m") != kw.get("m"):
            ok = False  # budgets are tied to m
        if ok:
            yield dict(case, kw=nkw, profile=jp)
    for key in ("m", "m_2", "m_1"):
        if key in kw and kw[key] > 1 and case["rule"] not in ("Cumulative", "Limited", "BlocPlurality"):
            nkw = dict(kw)
            nkw[key] = kw[key] - 1
            if "m_1" in nkw and nkw["m_2"] > nkw["m_1"]:
                continue
            yield dict(case, kw=nkw)
    defaults = {"quota": "droop", "simultaneous": True, "transfer": "fractional"}
    for key, dv in defaults.items():
        if key in kw and kw[key] != dv:
            yield dict(case, kw=dict(kw, **{key: dv}))
