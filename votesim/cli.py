"""./check <id> --tier quick|thorough [--seed N] [--replay FILE] [--workers K]"""
import argparse
import importlib
import os
import sys


def main(argv=None):
    ap = argparse.ArgumentParser()
    ap.add_argument("target")
    ap.add_argument("--tier", default=os.environ.get("VERIF_TIER", "quick"), choices=["quick", "thorough"])
    ap.add_argument("--seed", type=int, default=int(os.environ.get("VERIF_SEED", "20261003")))
    ap.add_argument("--replay")
    ap.add_argument("--workers", type=int)
    ap.add_argument("--runs", type=int, help="override the number of runs (debugging)")
    a = ap.parse_args(argv)
    from .core import driver

    if a.target == "setup":
        from . import selftest

        return selftest.setup()
    if a.target == "selftest":
        from . import selftest

        return selftest.main(a)
    if a.replay:
        return driver.replay_cmd(a.replay)
    mod = importlib.import_module("votesim.props." + a.target.lower())
    if a.runs:
        mod.RUNS = dict(mod.RUNS, **{a.tier: a.runs})
    rc, _, _ = driver.run_check(mod, a.tier, a.seed, workers=a.workers)
    return rc


if __name__ == "__main__":
    sys.exit(main())
