"""setup + self-tests of the simulator itself.

determinism: for every engine, N run seeds are executed (a) by 4 workers, (b) by 16 workers (different
sharding, different processes), (b') by 3 workers in *reversed* order (a run's event log must not depend on
which runs preceded it in the same interpreter: catches cross-run contamination through module globals or
caches, in the harness or in the code under test), (c) -- for the engines that claim hash-seed independence -- under two
other PYTHONHASHSEED values; the per-run event-log digests must be identical.  Run before any property
is believed; repeat after every new seam or fault kind.
"""
import importlib
import json
import os
import shutil
import sys
import tempfile
import time

HASH_INDEPENDENT = ["C01", "C02", "C03", "C07", "C08", "C09", "C10", "C13", "C18"]
SEEDED_STREAMS = ["C14", "C16", "C17"]  # genuine generators: sample values depend on frozenset order -> pinned to one hash seed
SAMPLE = {"C01": 1200, "C02": 1200, "C03": 2500, "C07": 500, "C08": 300, "C09": 1500, "C10": 1200, "C13": 1000, "C18": 4000, "C14": 2500, "C16": 48, "C17": 250}


def setup():
    from .core.boot import boot, VERIF, SRC

    boot()
    import votekit
    import votekit.elections  # noqa
    import votekit.ballot_generator  # noqa
    import numpy, pandas, scipy  # noqa

    for d in ("evidence", "replays"):
        os.makedirs(os.path.join(VERIF, d), exist_ok=True)
    print(f"votesim setup ok: votekit from {os.path.dirname(votekit.__file__)} (python {sys.version.split()[0]}, numpy {numpy.__version__}, pandas {pandas.__version__})")
    return 0


def determinism(props, seed, scale=1.0):
    from .core import driver
    from .core.boot import VERIF

    report = {}
    bad = 0
    out = tempfile.mkdtemp(prefix="vk-selftest-")
    try:
        for prop in props:
            mod = importlib.import_module("votesim.props." + prop.lower())
            n = max(16, int(SAMPLE[prop] * scale))
            saved_runs, saved_hs, saved_time = dict(mod.RUNS), dict(getattr(mod, "HASHSEEDS", {})), dict(mod.TIME)
            mod.RUNS = dict(mod.RUNS, quick=n)
            mod.TIME = dict(mod.TIME, quick=4 * mod.TIME["quick"])  # every configuration should reach every run, also on a loaded machine
            configs = [("w4-h0", 4, [0]), ("w16-h0", 16, [0]), ("w3-h0-reversed", 3, [0])]
            if prop in HASH_INDEPENDENT:
                configs.append(("w8-h1+h31337", 8, [1, 31337]))
            digs = {}
            t0 = time.monotonic()
            for name, K, hs in configs:
                mod.HASHSEEDS = {"quick": hs}
                hv = getattr(mod, "hashseed_violation", None)
                if hv is not None:
                    del mod.hashseed_violation  # the self-test compares digests itself
                try:
                    rc, ev, d = driver.run_check(mod, "quick", seed, workers=K, keep_digests=True, quiet=True, hashseeds=hs, out_dir=out, reverse=name.endswith("reversed"))
                finally:
                    if hv is not None:
                        mod.hashseed_violation = hv
                if rc == 2:
                    print(f"selftest {prop} {name}: harness failure")
                    bad += 1
                for i, per in d.items():
                    for h, dg in per.items():
                        digs.setdefault(i, {})[f"{name}:{h}"] = dg
            mod.RUNS, mod.HASHSEEDS, mod.TIME = saved_runs, saved_hs, saved_time
            # a run whose executions disagree is a divergence; a run that some configuration did not reach before its
            # wall-clock budget (a loaded machine) is merely incomplete: reported, but not a determinism problem
            diverged = [i for i, per in digs.items() if len(set(per.values())) > 1]
            incomplete = [i for i, per in digs.items() if len(per) < sum(len(c[2]) for c in configs)]
            report[prop] = {"runs": len(digs), "executions_per_run": sum(len(c[2]) for c in configs), "configs": [c[0] for c in configs],
                            "diverged": len(diverged), "incomplete_runs": len(incomplete), "examples": {i: digs[i] for i in diverged[:3]}, "wall_s": round(time.monotonic() - t0, 1)}
            print(f"selftest determinism {prop}: {len(digs)} runs x {report[prop]['executions_per_run']} executions, diverged={len(diverged)} incomplete={len(incomplete)} ({report[prop]['wall_s']}s)")
            bad += len(diverged)
    finally:
        shutil.rmtree(out, ignore_errors=True)
    with open(os.path.join(VERIF, "selftest_report.json"), "w") as fh:
        json.dump({"seed": seed, "determinism": report}, fh, indent=1, sort_keys=True)
    return bad


def main(args):
    props = HASH_INDEPENDENT + SEEDED_STREAMS
    scale = 1.0 if args.tier == "quick" else 4.0
    if args.runs:
        scale = args.runs / 1000.0
    bad = determinism(props, args.seed, scale)
    print("selftest:", "OK" if not bad else f"{bad} PROBLEM(S)")
    return 0 if not bad else 2
