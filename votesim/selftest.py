"""setup + self-tests (determinism, replay) of the simulator itself"""
import os
import sys


def setup():
    from .core.boot import boot, VERIF, SRC

    boot()
    import votekit
    import votekit.elections  # noqa
    import votekit.ballot_generator  # noqa
    import numpy, pandas, scipy  # noqa

    for d in ("evidence", "replays"):
        os.makedirs(os.path.join(VERIF, d), exist_ok=True)
    print(f"votesim setup ok: votekit from {os.path.dirname(votekit.__file__)} (python {sys.version.split()[0]}, numpy {numpy.__version__}, pandas {pandas.__version__})")
    return 0


def main(args):
    print("selftest: not yet implemented")
    return 2
