"""Batch driver: shards a deterministic prefix of the run sequence over fresh-interpreter workers,
merges their reports, classifies violations against the known-findings file, re-executes each
reported replay file in a fresh interpreter before believing it, writes the evidence file.

Exit 0 = property held on everything explored (possibly with KNOWN-FINDING lines);
exit 1 = VIOLATION line(s); exit 2 = harness failure (never a verdict either way).
"""
import json
import os
import shutil
import subprocess
import sys
import tempfile
import time

from . import findings as F
from .boot import VERIF, SRC, HOOK_ENV, src_fingerprint
from .seeds import derive

PY = sys.executable
_OUT = os.environ.get("VOTESIM_OUT") or VERIF  # mutant/self-test runs must not overwrite the real tree's evidence
REPLAYS = os.path.join(_OUT, "replays")
EVIDENCE = os.path.join(_OUT, "evidence")


def _env(hashseed, extra=None):
    env = dict(os.environ)
    env["PYTHONHASHSEED"] = str(hashseed)
    env["PYTHONPATH"] = VERIF + (os.pathsep + env["PYTHONPATH"] if env.get("PYTHONPATH") else "")
    env.setdefault("MPLBACKEND", "Agg")
    env["OMP_NUM_THREADS"] = "1"
    env["OPENBLAS_NUM_THREADS"] = "1"
    env["MKL_NUM_THREADS"] = "1"
    if extra:
        env.update(extra)
    return env


def spawn(job, hashseed, extra_env=None):
    return subprocess.Popen([PY, "-m", "votesim.core.worker", json.dumps(job)], env=_env(hashseed, extra_env), cwd=VERIF,
                            stdout=subprocess.PIPE, stderr=subprocess.STDOUT)


def wait_all(procs, timeout):
    """-> list of (rc, output_text); kills stragglers"""
    t_end = time.monotonic() + timeout
    res = []
    for p in procs:
        left = max(1.0, t_end - time.monotonic())
        try:
            out, _ = p.communicate(timeout=left)
            res.append((p.returncode, out.decode(errors="replace")))
        except subprocess.TimeoutExpired:
            p.kill()
            out, _ = p.communicate()
            res.append((-9, "TIMEOUT " + out.decode(errors="replace")[-2000:]))
    return res


def verify_replay(path, hashseed, scratch, extra_env=None):
    with open(path) as fh:
        rep = json.load(fh)
    if rep.get("hashseed_compare"):
        # cross-interpreter violation: re-run the case under every listed PYTHONHASHSEED and compare digests
        digs, txts = {}, []
        for h in sorted(rep["hashseed_compare"]):
            out = os.path.join(scratch, "replay-%d-%s.json" % (derive(path) % 10**9, h))
            p = spawn({"replay": path, "out": out, "hard_timeout_s": 1500}, h, extra_env)
            (rc, txt), = wait_all([p], 1530)
            txts.append(txt)
            if rc != 0 or not os.path.exists(out):
                return None, txt
            with open(out) as fh:
                digs[h] = json.load(fh)["digest"]
        differ = len(set(digs.values())) > 1
        return {"reproduced": differ, "same_message": differ, "same_digest": digs == rep["hashseed_compare"], "violations": [], "digest": digs}, "\n".join(txts)
    out = os.path.join(scratch, "replay-%d.json" % (derive(path) % 10**9))
    p = spawn({"replay": path, "out": out, "hard_timeout_s": 1500}, hashseed, extra_env)
    (rc, txt), = wait_all([p], 1530)
    if rc != 0 or not os.path.exists(out):
        return None, txt
    with open(out) as fh:
        return json.load(fh), txt


def replay_cmd(path):
    """./check <id> --replay file : exit 1 + VIOLATION line when the recorded violation reproduces"""
    with open(path) as fh:
        rep = json.load(fh)
    scratch = tempfile.mkdtemp(prefix="votesim-")
    try:
        hs = rep.get("hashseed", "0")
        hs = "0" if hs == "random" else hs
        res, txt = verify_replay(path, hs, scratch, rep.get("hooks_env") and {k: v for k, v in rep["hooks_env"].items() if v})
    finally:
        shutil.rmtree(scratch, ignore_errors=True)
    if res is None:
        print("HARNESS-FAILURE replay worker died\n" + txt[-2000:])
        return 2
    if res["reproduced"]:
        f = F.classify(rep["property"], rep["violation"]["sig"])
        print(f"reproduced: same_message={res['same_message']} same_event_digest={res['same_digest']}")
        print(rep["violation"]["message"])
        if f is not None:
            print(f"KNOWN-FINDING: property={rep['property']} {f['id']}: {f['text']}")
            return 0
        print(f"VIOLATION property={rep['property']} replay={path}")
        return 1
    print("not reproduced on this tree; violations seen:", json.dumps(res["violations"])[:500])
    return 0


def run_check(mod, tier, seed, workers=None, keep_digests=False, extra_env=None, quiet=False, hashseeds=None, out_dir=None, reverse=False):
    global REPLAYS, EVIDENCE
    if out_dir:
        REPLAYS, EVIDENCE = os.path.join(out_dir, "replays"), os.path.join(out_dir, "evidence")
    prop = mod.ID
    t0 = time.monotonic()
    K = workers or min(16, os.cpu_count() or 4)
    n = mod.RUNS[tier]
    cap = mod.TIME[tier]
    hashseeds = hashseeds or getattr(mod, "HASHSEEDS", {}).get(tier, [0])
    compare_hs = len(hashseeds) > 1
    scratch = tempfile.mkdtemp(prefix="votesim-")
    os.makedirs(REPLAYS, exist_ok=True)
    os.makedirs(EVIDENCE, exist_ok=True)
    try:
        per = max(1, K // len(hashseeds))
        procs, outs, meta = [], [], []
        for h in hashseeds:
            for w in range(per):
                out = os.path.join(scratch, f"w-{h}-{w}.json")
                job = {"prop": prop, "seed": seed, "tier": tier, "shard": w, "nshards": per, "n": n, "deadline_s": cap,
                       "out": out, "digests": bool(compare_hs or keep_digests), "hard_timeout_s": cap * 3 + 300, "reverse": bool(reverse)}
                procs.append(spawn(job, h, extra_env))
                outs.append(out)
                meta.append((h, w))
        results = wait_all(procs, cap * 3 + 360)
        reports = []
        harness = []
        for (rc, txt), out, (h, w) in zip(results, outs, meta):
            if rc != 0 or not os.path.exists(out):
                harness.append(f"worker hashseed={h} shard={w} rc={rc}: {txt[-1500:]}")
                continue
            with open(out) as fh:
                r = json.load(fh)
            r["_h"], r["_w"] = h, w
            reports.append(r)
            for he in r["harness_errors"]:
                harness.append(f"run {he['index']}: {he['error']}\n{he['tb']}")
        # ---------------------------------------------------------------- merge
        merged = {"evaluations": 0, "probes": {}, "faults": {}, "policies": {}, "rounds": 0, "draws": 0, "nontrivial_runs": 0, "extra": {}}
        sigs = set()
        samples = []
        viol = {}
        stopped = False
        digests = {}
        for r in reports:
            merged["evaluations"] += r["evaluations"]
            merged["rounds"] += r["rounds"]
            merged["draws"] += r["draws"]
            merged["nontrivial_runs"] += r["nontrivial_runs"]
            stopped = stopped or r["stopped_early"]
            for key in ("probes", "faults", "policies", "extra"):
                for k, v in r[key].items():
                    merged[key][k] = merged[key].get(k, 0) + v
            sigs.update(r["sigs"])
            if r["_h"] == hashseeds[0]:
                samples += r["samples"]
            for k, v in r["violations"].items():
                cur = viol.get(k)
                if cur is None:
                    viol[k] = dict(v)
                else:
                    cur["count"] += v["count"]
                    if v["first_index"] < cur["first_index"]:
                        cur["first_index"], cur["replay"] = v["first_index"], v["replay"]
            for i, d in r["digests"].items():
                digests.setdefault(i, {})[str(r["_h"])] = d
        # ---------------------------------------------------------------- hash-seed comparison (C08 & self-test)
        if compare_hs and hasattr(mod, "hashseed_violation"):
            for i in sorted(digests, key=int):
                ds = digests[i]
                if len(set(ds.values())) > 1:
                    v = mod.hashseed_violation(seed, int(i), ds)
                    k = json.dumps(v["sig"], sort_keys=True)
                    if k not in viol:
                        viol[k] = {"count": 1, "first_index": int(i), "sig": v["sig"], "replay": v["replay"]}
                    else:
                        viol[k]["count"] += 1
        # ---------------------------------------------------------------- classify + verify
        known = F.load()
        lines = []
        n_new = 0
        finding_hits = {}
        viol_summ = []
        for k in sorted(viol, key=lambda kk: viol[kk]["first_index"]):
            v = viol[k]
            f = F.classify(prop, v["sig"], known)
            path = os.path.join(REPLAYS, f"{prop}-{derive(k) % 16**10:010x}.json")
            with open(path, "w") as fh:
                json.dump(v["replay"], fh, indent=1)  # key order is part of some cases (dict order of preference intervals)
            if v["replay"].get("no_reexec"):
                ok = True
            else:
                res, txt = verify_replay(path, v["replay"].get("hashseed", "0"), scratch, extra_env)
                ok = res is not None and res["reproduced"]
                if not ok and res is not None and v["replay"].get("history") and not v["replay"]["history"].get("reverse"):
                    # not reproducible in isolation: does it reproduce when the worker's earlier runs are executed first?
                    # then the code under test carries state across calls and the violation is real and exactly replayable
                    v["replay"]["needs_history"] = True
                    v["replay"]["violation"]["message"] += " [only after the earlier runs of the same worker: the outcome depends on state carried across calls]"
                    with open(path, "w") as fh:
                        json.dump(v["replay"], fh, indent=1)
                    res, txt = verify_replay(path, v["replay"].get("hashseed", "0"), scratch, extra_env)
                    ok = res is not None and res["reproduced"]
                if not ok and res is not None and v["sig"].get("clause") == "termination-wall":
                    # a wall-clock stop that does not repeat in a fresh interpreter was machine load, not the code under test:
                    # inconclusive, recorded in the evidence, neither a verdict nor a harness failure
                    merged["probes"]["wall_clock_stop_not_reproduced"] = merged["probes"].get("wall_clock_stop_not_reproduced", 0) + v["count"]
                    continue
                if not ok:
                    harness.append(f"replay {path} did not reproduce in a fresh interpreter: {txt[-800:] if res is None else res['violations']}")
                    continue
            viol_summ.append({"sig": v["sig"], "count": v["count"], "replay": path, "known_finding": f["id"] if f else None})
            if f is not None:
                finding_hits.setdefault(f["id"], [0, f, path])[0] += v["count"]
            else:
                n_new += 1
                lines.append(f"VIOLATION property={prop} replay={path}")
                lines.append(f"  sig={k} runs={v['count']} message={v['replay']['violation']['message'][:400]}")
        for fid, (cnt, f, path) in sorted(finding_hits.items()):
            lines.append(f"KNOWN-FINDING: property={prop} {fid}: {f['text']} (hit by {cnt} runs; replay={path})")
        wall = time.monotonic() - t0
        # ---------------------------------------------------------------- evidence
        ev_n = merged["evaluations"]
        coverage = {
            "evaluations": ev_n,
            "distinct_nontrivial": len(sigs),
            "rule": mod.RULE_TEXT,
            "samples": samples[:4],
            "nontrivial_runs": merged["nontrivial_runs"],
            "runs_planned": n * len(hashseeds),
            "stopped_by_wall_cap": stopped,
            "runs_per_hour": int(ev_n / wall * 3600) if wall > 0 else 0,
            "seeds_per_hour": int(ev_n / wall * 3600) if wall > 0 else 0,
            "rounds_simulated": merged["rounds"],
            "choice_points_scheduled": merged["draws"],
            "simulated_time": "n/a (the code under test never reads a clock; step unit = election round / random choice point)",
            "schedule_policies": merged["policies"],
            "fault_kinds_fired": merged["faults"],
            "probes": merged["probes"],
            "hash_seeds": hashseeds,
            "workers": len(procs),
            "violations_by_signature": viol_summ,
            "known_findings_hit": {fid: c for fid, (c, _, _) in finding_hits.items()},
            "real_vs_stub": getattr(mod, "REAL_VS_STUB", "real: all of votekit from the working tree, numpy, pandas, networkx, pydantic; stub: `ot` (POT, not installed; import-only); PRNG behind random/numpy.random is the simulator's in directed/adversary/scripted policies, CPython's seeded generator in the seeded policy"),
            "source_under_test": SRC,
            "source_fingerprint": src_fingerprint(),
            "hooks_env": {HOOK_ENV: (extra_env or {}).get(HOOK_ENV, os.environ.get(HOOK_ENV, ""))},
        }
        coverage.update(merged["extra"] and {"extra": merged["extra"]} or {})
        evidence = {
            "property_id": prop, "tier": tier, "seed": seed, "level": "exploration", "coverage": coverage,
            "assumptions": getattr(mod, "ASSUMPTIONS", []), "wall_s": round(wall, 2), "violations": n_new,
        }
        if harness:
            evidence["coverage"]["harness_failures"] = harness[:5]
        with open(os.path.join(EVIDENCE, f"{prop}.json"), "w") as fh:
            json.dump(evidence, fh, indent=1, sort_keys=True, default=str)
        if not quiet:
            print(f"[{prop}] tier={tier} seed={seed} runs={ev_n} distinct_nontrivial={len(sigs)} rounds={merged['rounds']} draws={merged['draws']} wall={wall:.1f}s")
            print(f"[{prop}] faults={json.dumps(merged['faults'], sort_keys=True)}")
            print(f"[{prop}] probes={json.dumps(merged['probes'], sort_keys=True)}")
            for ln in lines:
                print(ln)
        if harness:
            print(f"HARNESS-FAILURE property={prop}: {len(harness)} problem(s)")
            for h in harness[:3]:
                print("  " + h[-700:].replace("\n", "\n  "))
            # a violation that was re-executed and reproduced stands whatever happened to another shard
            return (1 if n_new else 2), evidence, digests
        if ev_n == 0:
            print(f"HARNESS-FAILURE property={prop}: no runs executed")
            return 2, evidence, digests
        return (1 if n_new else 0), evidence, digests
    finally:
        shutil.rmtree(scratch, ignore_errors=True)
