"""Boot the code under test: put the working tree's sources (and the POT stub) first on sys.path.

The pinned pytest command imports the votekit wheel from /venv/site-packages; the checks must see
/repo/src instead, so they insert it ahead of site-packages.  $VOTEKIT_SRC lets the sensitivity
self-test point the same checks at a mutated scratch copy.
"""
import os
import sys

VERIF = os.path.dirname(os.path.dirname(os.path.dirname(os.path.abspath(__file__))))
SRC = os.environ.get("VOTEKIT_SRC", "/repo/src")
STUBS = os.path.join(VERIF, "stubs")
HOOK_ENV = "VOTEKIT_VERIF_NODF"

_booted = False


def boot():
    global _booted
    if _booted:
        return
    os.environ.setdefault("MPLBACKEND", "Agg")
    for p in (STUBS, SRC):
        if p in sys.path:
            sys.path.remove(p)
    sys.path[:0] = [SRC, STUBS]
    import votekit  # noqa

    got = os.path.realpath(votekit.__file__)
    if not got.startswith(os.path.realpath(SRC)):
        raise RuntimeError(f"votekit imported from {got}, expected under {SRC}")
    _booted = True


def src_fingerprint():
    """blake2b over the votekit sources actually under test (recorded in evidence/replays)."""
    import hashlib

    h = hashlib.blake2b(digest_size=8)
    root = os.path.join(SRC, "votekit")
    for d, _, fs in sorted(os.walk(root)):
        for f in sorted(fs):
            if f.endswith(".py"):
                p = os.path.join(d, f)
                h.update(os.path.relpath(p, root).encode())
                with open(p, "rb") as fh:
                    h.update(fh.read())
    return h.hexdigest()
