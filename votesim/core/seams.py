"""The simulator's seams: every source of nondeterminism the election code touches is owned here.

* `Seam`        -- the scheduler of *random choice points*.  It is installed in place of the module
                   attribute `random` (and `np`) of every votekit module that draws, logs each draw
                   (site, kind, canonical population, k, outcome, round in progress) and resolves it
                   by the active *schedule policy* (seeded / asc / desc / keyed / rot / adversary /
                   scripted).
* `_run_step`   -- wrapped on every rule class: records (profile_in, prev_state, profile_out) of each
                   *stored* round, tells the seam which round is in progress, and enforces the
                   deterministic round budget (bounded liveness).
* `wall_guard`  -- wall-clock alarm, only as a backstop for loops that never reach `_run_step`.
* `seed_real_streams` -- seeded mode for code that must use the genuine generators (statistical
                   arms): seeds `random`, `numpy.random` and patches `numpy.random.default_rng`
                   (OS entropy otherwise).
No file under /repo is modified: module globals are sufficient seams.
"""
import contextlib
import importlib
import io
import random as _pyrandom
import signal
import sys
from fractions import Fraction

import numpy as _np

from . import canon
from .seeds import derive


import os as _os

from .boot import SRC as _SRC

_SRC_PREFIX = _os.path.join(_os.path.realpath(_SRC), "votekit") + _os.sep


def in_votekit(filename):
    return filename.startswith(_SRC_PREFIX)


class RoundBudgetExceeded(BaseException):
    pass


class WallAlarm(BaseException):
    pass


class ScriptExhausted(Exception):
    pass


ACTIVE = None  # the Seam in force (None => code under test uses the genuine generators)
LIVE = []  # election objects that started running since the last clear (outermost first)


# --------------------------------------------------------------------------------------------
def _ckey(x):
    """canonical sort key for anything the code under test puts in a population"""
    if isinstance(x, str):
        return (0, x)
    if isinstance(x, (int, float, Fraction, _np.integer, _np.floating)):
        return (1, float(x), str(x))
    if hasattr(x, "ranking") and hasattr(x, "weight"):
        return (2, canon.ballot_key(x))
    if isinstance(x, (frozenset, set)):
        return (3, tuple(sorted(x)))
    if isinstance(x, (tuple, list)):
        return (4, tuple(_ckey(y) for y in x))
    return (5, repr(x))


def _crepr(x):
    if isinstance(x, str):
        return x
    if hasattr(x, "ranking") and hasattr(x, "weight"):
        return canon.cballot(x)
    if isinstance(x, (frozenset, set)):
        return sorted(x)
    if isinstance(x, (int, _np.integer)):
        return int(x)
    if isinstance(x, (float, _np.floating)):
        return float(x)
    if isinstance(x, Fraction):
        return canon.fs(x)
    if isinstance(x, (tuple, list)):
        return [_crepr(y) for y in x]
    return repr(x)


def _site():
    """innermost votekit frame calling into the facade"""
    f = sys._getframe(2)
    while f is not None:
        fn = f.f_code.co_filename
        if fn.startswith(_SRC_PREFIX):
            mod = fn.rsplit("/", 1)[-1][:-3]
            return f"{mod}.{f.f_code.co_name}"
        f = f.f_back
    return "?"


class Seam:
    """Scheduler of random choice points.

    policy: {'kind': 'seeded', 'seed': int}
            {'kind': 'asc'|'desc'}
            {'kind': 'keyed', 'key': int}
            {'kind': 'rot', 'k': int}
            {'kind': 'adversary', 'S': [...], 'base': 'asc'}      (C07)
            {'kind': 'scripted', 'decisions': [...], 'base': 'asc', 'strict': bool}
    """

    def __init__(self, policy, log_populations=True):
        self.policy = dict(policy)
        self.kind = policy["kind"]
        self.log = []
        self.ctx = []
        self.draws = 0
        self.nontrivial = 0
        self.log_populations = log_populations
        self._seen = {}
        self._nprs = None
        self._script = list(policy.get("decisions", []))
        self._spos = 0
        self.base = policy.get("base", "asc")
        self.S = frozenset(policy.get("S", ()))

    # ---- helpers
    def _keyed_rng(self, site, pop_repr, k):
        """'seeded' policy: a fresh PRNG per choice point, keyed by the seed and the *content* of the choice point
        (site, round in progress, canonical population, k) plus how many times this exact choice point was met before.
        Draws are pseudo-random and independent across choice points, a repeated identical choice point (e.g. a
        get_profile replay) gets a fresh draw, yet nothing depends on the order in which the code under test happens to
        visit simultaneous choice points (set iteration order / hash seed)."""
        # the rule's class name is left out of the key: an alias/composite and its documented composition
        # (IRV vs STV(m=1), Alaska vs Plurality+STV) must meet the same tie with the same draw (C13)
        key = repr((site, list(self.ctx[-1][1:]) if self.ctx else None, pop_repr, k))
        n = self._seen.get(key, 0)
        self._seen[key] = n + 1
        return _pyrandom.Random(derive(self.policy.get("seed", 0), key, n))

    def _np_rs(self):
        if self._nprs is None:
            self._nprs = _np.random.RandomState(derive(self.policy.get("seed", 0), "np") % (2**32))
        return self._nprs

    def _entry(self, kind, site, pop, k, out, nontrivial, extra=None):
        self.draws += 1
        if nontrivial:
            self.nontrivial += 1
        e = {
            "n": self.draws,
            "site": site,
            "kind": kind,
            "k": k,
            "out": out,
            "nt": bool(nontrivial),
            "ctx": list(self.ctx[-1]) if self.ctx else None,
            "octx": list(self.ctx[0]) if self.ctx else None,
            "depth": len(self.ctx),
        }
        if self.log_populations:
            e["pop"] = pop
        if extra:
            e.update(extra)
        self.log.append(e)
        return e

    def _next_script(self):
        if self._spos < len(self._script):
            d = self._script[self._spos]
            self._spos += 1
            return d
        if self.policy.get("strict"):
            raise ScriptExhausted()
        return None

    def _order(self, items, site, kind_override=None):
        """directed permutation of canonically sorted items -> list of indices"""
        n = len(items)
        idx = list(range(n))
        kind = kind_override or self.kind
        if kind in ("scripted", "adversary"):
            kind = self.base
        if kind == "asc":
            return idx
        if kind == "desc":
            return idx[::-1]
        if kind == "rot":
            r = self.policy.get("k", 1) % n if n else 0
            return idx[r:] + idx[:r]
        if kind == "keyed":
            key = self.policy.get("key", 0)
            return sorted(idx, key=lambda i: (derive(key, site, repr(_ckey(items[i]))), i))
        raise ValueError(kind)

    # ---- random.sample
    def sample(self, population, k, *, counts=None):
        site = _site()
        pop = sorted(population, key=_ckey)
        n = len(pop)
        if k < 0 or k > n:
            # genuine library behaviour
            raise ValueError("Sample larger than population or is negative")
        distinct = len({repr(_ckey(x)) for x in pop})
        is_transfer = site.endswith("random_transfer")
        nontrivial = k > 0 and distinct >= 2 and not (is_transfer and k == n)
        if self.kind == "seeded":
            idx = self._keyed_rng(site, [_crepr(x) for x in pop], k).sample(range(n), k)
        elif self.kind == "adversary":
            idx = self._adversary_sample(pop, k, site)
        else:
            idx = None
            if self.kind == "scripted":
                d = self._next_script()
                if d is not None and "idx" in d and len(d["idx"]) == k and all(0 <= i < n for i in d["idx"]) and len(set(d["idx"])) == k:
                    idx = list(d["idx"])
            if idx is None:
                idx = self._order(pop, site)[:k]
        out = [pop[i] for i in idx]
        self._entry("sample", site, [_crepr(x) for x in pop], k, [_crepr(x) for x in out], nontrivial, {"idx": list(idx)})
        return out

    def _adversary_sample(self, pop, k, site):
        S = self.S
        n = len(pop)
        base = self._order(pop, site)
        if n and isinstance(pop[0], str):
            # tiebreak permutation: coalition members go last (eliminated last-listed; elected first-listed)
            return sorted(base, key=lambda i: (pop[i] in S))[:k]
        if n and hasattr(pop[0], "ranking"):
            # random transfer: prefer ballots whose next choice is outside the coalition
            def hurts(b):
                if not b.ranking:
                    return 0
                return 1 if next(iter(b.ranking[0])) in S else 0

            return sorted(base, key=lambda i: hurts(pop[i]))[:k]
        return base[:k]

    # ---- random.choices (k == 1 everywhere in the election code)
    def choices(self, population, weights=None, *, cum_weights=None, k=1):
        site = _site()
        items = list(population)
        if weights is None:
            w = [1] * len(items)
        else:
            w = list(weights)
        if len(w) != len(items):
            raise ValueError("The number of weights does not match the population")
        order = sorted(range(len(items)), key=lambda i: _ckey(items[i]))
        pop = [items[i] for i in order]
        pw = [w[i] for i in order]
        if not pop:
            # genuine library behaviour: IndexError from an empty population
            raise IndexError("Cannot choose from an empty sequence")
        total = sum(float(x) for x in pw)
        if total <= 0.0:
            raise ValueError("Total of weights must be greater than zero")
        positive = [i for i in range(len(pop)) if float(pw[i]) > 0]
        nontrivial = len({repr(_ckey(pop[i])) for i in positive}) >= 2
        outs = []
        for _ in range(k):
            if self.kind == "seeded":
                i = self._keyed_rng(site, [[_crepr(x) for x in pop], [canon.fs(x) for x in pw]], k).choices(range(len(pop)), weights=[float(x) for x in pw], k=1)[0]
            else:
                i = None
                if self.kind == "scripted":
                    d = self._next_script()
                    if d is not None and "idx" in d and d["idx"] and d["idx"][0] in positive:
                        i = d["idx"][0]
                if i is None:
                    o = [j for j in self._order(pop, site) if j in positive]
                    i = o[0]
            outs.append(i)
        self._entry(
            "choices",
            site,
            [_crepr(x) for x in pop],
            k,
            [_crepr(pop[i]) for i in outs],
            nontrivial,
            {"idx": outs, "weights": [canon.fs(x) for x in pw]},
        )
        return [pop[i] for i in outs]

    # ---- random.uniform / random.random
    def _u(self, site):
        if self.kind == "seeded":
            return self._keyed_rng(site, "u", 1).random()
        if self.kind == "scripted":
            d = self._next_script()
            if d is not None and "u" in d:
                return float(d["u"])
        kind = self.base if self.kind in ("scripted", "adversary") else self.kind
        if kind == "asc":
            return 0.0137
        if kind == "desc":
            return 0.9863
        if kind == "rot":
            return (0.0137 + 0.2391 * self.policy.get("k", 1)) % 1.0 or 0.5
        # keyed
        return (derive(self.policy.get("key", 0), site, self.draws) % 999983 + 1) / 999985.0

    def uniform(self, a, b):
        site = _site()
        u = self._u(site)
        v = a + (b - a) * u
        self._entry("uniform", site, [a, b], 1, v, True)
        return v

    def random(self):
        site = _site()
        u = self._u(site)
        self._entry("random", site, [0, 1], 1, u, True)
        return u

    def shuffle(self, x):
        site = _site()
        items = sorted(x, key=_ckey)
        n = len(items)
        if self.kind == "seeded":
            idx = list(range(n))
            self._keyed_rng(site, [_crepr(v) for v in items], n).shuffle(idx)
        else:
            idx = None
            if self.kind == "scripted":
                d = self._next_script()
                if d is not None and "idx" in d and sorted(d["idx"]) == list(range(n)):
                    idx = list(d["idx"])
            if idx is None:
                idx = self._order(items, site)
        out = [items[i] for i in idx]
        x[:] = out
        self._entry("shuffle", site, [_crepr(v) for v in items], n, [_crepr(v) for v in out], len({repr(_ckey(v)) for v in items}) >= 2, {"idx": idx})

    def seed(self, *a, **k):
        pass

    # ---- numpy.random facade --------------------------------------------------------------
    def np_choice(self, a, size=None, replace=True, p=None):
        site = _site()
        if isinstance(a, (int, _np.integer)):
            items = list(range(int(a)))
        else:
            items = list(a)
        # genuine validation (NaN probabilities, wrong sums, empty population) -> genuine exceptions
        probe = _np.random.RandomState(0)
        probe.choice(len(items) if items else a, size=size, replace=replace, p=p)
        pv = [1.0 / len(items)] * len(items) if p is None else [float(v) for v in p]
        order = sorted(range(len(items)), key=lambda i: _ckey(items[i]))
        pop = [items[i] for i in order]
        pw = [pv[i] for i in order]
        positive = [i for i in range(len(pop)) if pw[i] > 0]
        n_out = 1 if size is None else int(_np.prod(size))
        if not replace and n_out > len(positive):
            raise ValueError("Fewer non-zero entries in p than size")
        outs = []
        avail = list(positive)
        for _ in range(n_out):
            if self.kind == "seeded":
                ws = [pw[i] for i in avail]
                i = self._keyed_rng(site, [[_crepr(x) for x in pop], [round(x, 9) for x in pw], list(avail)], n_out).choices(avail, weights=ws, k=1)[0]
            else:
                i = None
                if self.kind == "scripted":
                    d = self._next_script()
                    if d is not None and "idx" in d and d["idx"] and d["idx"][0] in avail:
                        i = d["idx"][0]
                if i is None:
                    o = [j for j in self._order(pop, site) if j in avail]
                    i = o[0]
            outs.append(i)
            if not replace:
                avail.remove(i)
        self._entry(
            "np.choice",
            site,
            [_crepr(x) for x in pop],
            n_out,
            [_crepr(pop[i]) for i in outs],
            len(positive) >= 2,
            {"idx": outs, "p": pw, "replace": bool(replace)},
        )
        res = [pop[i] for i in outs]
        if size is None:
            r = res[0]
            return _np.str_(r) if isinstance(r, str) else r
        return _np.array(res).reshape(size)

    def np_shuffle(self, x):
        if isinstance(x, list):
            return self.shuffle(x)
        lst = list(x)
        self.shuffle(lst)
        x[:] = lst

    def np_uniform(self, low=0.0, high=1.0, size=None):
        site = _site()
        if size is None:
            u = self._u(site)
            self._entry("np.uniform", site, [low, high], 1, u, True)
            return low + (high - low) * u
        n = int(_np.prod(size))
        us = [self._u(site) for _ in range(n)]
        self._entry("np.uniform", site, [low, high], n, us if n <= 16 else us[:16], True)
        return (low + (high - low) * _np.array(us)).reshape(size)

    def np_random(self, size=None):
        return self.np_uniform(0.0, 1.0, size)


class _NpRandomFacade:
    def __init__(self, seam):
        self._seam = seam

    def choice(self, a, size=None, replace=True, p=None):
        return self._seam.np_choice(a, size=size, replace=replace, p=p)

    def shuffle(self, x):
        return self._seam.np_shuffle(x)

    def uniform(self, low=0.0, high=1.0, size=None):
        return self._seam.np_uniform(low, high, size)

    def random(self, size=None):
        return self._seam.np_random(size)

    def __getattr__(self, name):
        return getattr(_np.random, name)


class NpProxy:
    """stands in for the module attribute `np`: `.random` is the facade, all else is real numpy"""

    def __init__(self, seam):
        self.random = _NpRandomFacade(seam)

    def __getattr__(self, name):
        return getattr(_np, name)


# --------------------------------------------------------------------------------------------
ELECTION_SEAMS = [
    ("votekit.utils", "random", "py"),
    ("votekit.elections.transfers", "random", "py"),
    ("votekit.elections.election_types.ranking.random_dictator", "random", "py"),
    ("votekit.elections.election_types.ranking.boosted_random_dictator", "random", "py"),
    ("votekit.elections.election_types.ranking.boosted_random_dictator", "np", "np"),
    ("votekit.elections.election_types.ranking.plurality_veto", "np", "np"),
]
GENERATOR_SEAMS = [
    ("votekit.ballot_generator", "random", "py"),
    ("votekit.ballot_generator", "np", "np"),
]

_saved = {}


def install(seam, generators=False):
    """put `seam` behind every draw of the election code (and optionally the generator module)"""
    global ACTIVE
    uninstall()
    targets = ELECTION_SEAMS + (GENERATOR_SEAMS if generators else [])
    proxy = NpProxy(seam)
    for modname, attr, kind in targets:
        mod = importlib.import_module(modname)
        _saved[(modname, attr)] = getattr(mod, attr)
        setattr(mod, attr, seam if kind == "py" else proxy)
    ACTIVE = seam
    return seam


def uninstall():
    global ACTIVE
    for (modname, attr), val in list(_saved.items()):
        setattr(sys.modules[modname], attr, val)
    _saved.clear()
    ACTIVE = None


@contextlib.contextmanager
def scheduled(policy, generators=False, log_populations=True):
    seam = Seam(policy, log_populations=log_populations)
    install(seam, generators=generators)
    try:
        yield seam
    finally:
        uninstall()


# --------------------------------------------------------------------------------------------
_real_default_rng = _np.random.default_rng
_default_rng_state = {"seed": None, "n": 0, "patched": False}


def _patched_default_rng(seed=None):
    if seed is not None or _default_rng_state["seed"] is None:
        return _real_default_rng(seed)
    _default_rng_state["n"] += 1
    s = derive(_default_rng_state["seed"], "default_rng", _default_rng_state["n"])
    return _np.random.Generator(_np.random.PCG64(s))


def seed_real_streams(seed):
    """seeded mode for the genuine generators: random, numpy.random, and OS-entropy default_rng()"""
    _pyrandom.seed(derive(seed, "py"))
    _np.random.seed(derive(seed, "np") % (2**32))
    _default_rng_state["seed"] = seed
    _default_rng_state["n"] = 0
    if not _default_rng_state["patched"]:
        _np.random.default_rng = _patched_default_rng
        _default_rng_state["patched"] = True


# --------------------------------------------------------------------------------------------
BUDGET_SLACK = 6


def round_budget(election):
    try:
        return 2 * len(election._profile.candidates) + BUDGET_SLACK
    except Exception:
        return 2 * 8 + BUDGET_SLACK


def _wrap_run_step(cls):
    orig = cls.__dict__.get("_run_step")
    if orig is None or getattr(orig, "_vs_wrapped", False):
        return

    import inspect as _inspect

    sig = _inspect.signature(orig)

    def _run_step(self, *args, **kwargs):
        # the wrapper must not alter the call: arguments are forwarded untouched and `store_states` is read with the
        # ORIGINAL function's default (a wrapper default of its own once masked a seeded change of that default)
        bound = sig.bind(self, *args, **kwargs)
        bound.apply_defaults()
        profile = bound.arguments.get("profile")
        prev_state = bound.arguments.get("prev_state")
        store_states = bool(bound.arguments.get("store_states", False))
        seam = ACTIVE
        if store_states:
            n = self.__dict__.get("_vs_n", 0) + 1
            self.__dict__["_vs_n"] = n
            if n == 1:
                LIVE.append(self)
            if n > round_budget(self):
                raise RoundBudgetExceeded(f"{type(self).__name__}: round {n} exceeds budget {round_budget(self)}")
        if seam is not None:
            seam.ctx.append((type(self).__name__, prev_state.round_number + 1, bool(store_states)))
        prev_c = canon.cstate(prev_state) if store_states else None
        try:
            out = orig(self, *args, **kwargs)
        finally:
            if seam is not None:
                seam.ctx.pop()
        if store_states:
            self.__dict__.setdefault("_vs_rec", []).append((profile, prev_c, out))
        return out

    _run_step._vs_wrapped = True
    _run_step.__wrapped__ = orig
    cls._run_step = _run_step


def rule_classes():
    import votekit.elections as E

    names = [
        "STV", "IRV", "SequentialRCV", "Plurality", "SNTV", "Borda", "TopTwo", "Alaska",
        "DominatingSets", "CondoBorda", "RandomDictator", "BoostedRandomDictator", "PluralityVeto",
        "GeneralRating", "Rating", "Limited", "Cumulative", "Approval", "BlocPlurality",
    ]
    return {n: getattr(E, n) for n in names}


def install_recorder():
    for cls in rule_classes().values():
        for k in cls.__mro__:
            if "_run_step" in k.__dict__ and k.__module__.startswith("votekit") and not getattr(k._run_step, "__isabstractmethod__", False):
                _wrap_run_step(k)


def recorded(election):
    return election.__dict__.get("_vs_rec", [])


# --------------------------------------------------------------------------------------------
@contextlib.contextmanager
def wall_guard(seconds):
    def handler(signum, frame):
        raise WallAlarm(f"wall alarm after {seconds}s")

    old = signal.signal(signal.SIGALRM, handler)
    signal.setitimer(signal.ITIMER_REAL, seconds)
    try:
        yield
    finally:
        signal.setitimer(signal.ITIMER_REAL, 0)
        signal.signal(signal.SIGALRM, old)


@contextlib.contextmanager
def quiet():
    buf = io.StringIO()
    with contextlib.redirect_stdout(buf), contextlib.redirect_stderr(buf):
        yield buf


def innermost_votekit_frame(exc):
    import traceback

    frames = [t for t in traceback.extract_tb(exc.__traceback__) if t.filename.startswith(_SRC_PREFIX)]
    if not frames:
        return "?"
    t = frames[-1]
    return f"{t.filename.rsplit('/', 1)[-1][:-3]}.{t.name}"
