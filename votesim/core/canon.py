"""Canonical (hash-seed independent, JSON-able) views of votekit values, and case <-> object builders.

Everything here uses sorted lists only, so the harness's own output never depends on set order.
"""
from fractions import Fraction


def fs(x) -> str:
    """number -> canonical string"""
    if isinstance(x, Fraction):
        return str(x.numerator) if x.denominator == 1 else f"{x.numerator}/{x.denominator}"
    if isinstance(x, bool):
        return str(x)
    if isinstance(x, int):
        return str(x)
    if isinstance(x, float):
        return repr(x)
    try:
        return repr(float(x))
    except Exception:
        return repr(x)


def pf(s) -> Fraction:
    if isinstance(s, (int, Fraction)):
        return Fraction(s)
    return Fraction(s)


def cgroups(t):
    """tuple of (frozen)sets -> list of sorted lists, empty groups dropped"""
    if t is None:
        return None
    return [sorted(s) for s in t if len(s) > 0]


def cranking(r):
    if r is None:
        return None
    return [sorted(s) for s in r]


def cballot(b):
    return {
        "r": cranking(b.ranking),
        "w": fs(b.weight),
        "s": None if not b.scores else {c: fs(v) for c, v in sorted(b.scores.items())},
    }


def ballot_key(b):
    """total order on Ballot objects that depends on content only"""
    r = tuple(tuple(sorted(s)) for s in b.ranking) if b.ranking else ()
    s = tuple(sorted((c, Fraction(v)) for c, v in b.scores.items())) if b.scores else ()
    return (r, s, Fraction(b.weight), b.id or "", tuple(sorted(b.voter_set)) if b.voter_set else ())


def rkey(b):
    """content key of a ballot: (ranking, scores) -- weight excluded"""
    r = tuple(tuple(sorted(s)) for s in b.ranking) if b.ranking else ()
    s = tuple(sorted((c, Fraction(v)) for c, v in b.scores.items())) if b.scores else ()
    return (r, s)


def pmap(profile_or_ballots):
    """content -> total weight (zero-weight contents dropped). Never depends on ballot order."""
    ballots = getattr(profile_or_ballots, "ballots", profile_or_ballots)
    d = {}
    for b in ballots:
        k = rkey(b)
        d[k] = d.get(k, Fraction(0)) + Fraction(b.weight)
    return {k: v for k, v in d.items() if v != 0}


def rmap(profile_or_ballots):
    """untied ranking tuple (of names) -> weight; only for untied ranked ballots"""
    ballots = getattr(profile_or_ballots, "ballots", profile_or_ballots)
    d = {}
    for b in ballots:
        if not b.ranking:
            k = ()
        else:
            k = tuple(next(iter(s)) if len(s) == 1 else tuple(sorted(s)) for s in b.ranking)
        d[k] = d.get(k, Fraction(0)) + Fraction(b.weight)
    return {k: v for k, v in d.items() if v != 0}


def cpmap(profile_or_ballots):
    """JSON-able canonical profile map"""
    out = []
    for (r, s), w in sorted(pmap(profile_or_ballots).items()):
        out.append([[list(x) for x in r], [[c, fs(v)] for c, v in s], fs(w)])
    return out


def cscores(sc):
    return {c: fs(v) for c, v in sorted(sc.items())}


def ctiebreaks(tb):
    return sorted([[sorted(k), [sorted(s) for s in v]] for k, v in tb.items()])


def cstate(st):
    return {
        "round": st.round_number,
        "elected": cgroups(st.elected),
        "eliminated": cgroups(st.eliminated),
        "remaining": cgroups(st.remaining),
        "scores": cscores(st.scores),
        "tiebreaks": ctiebreaks(st.tiebreaks),
    }


def cstates(election):
    return [cstate(s) for s in election.election_states]


# ---------------------------------------------------------------- case <-> objects


def build_ballot(jb):
    from votekit import Ballot

    kw = {}
    if jb.get("r") is not None:
        kw["ranking"] = tuple(frozenset(s) for s in jb["r"])
    if jb.get("s"):
        kw["scores"] = {c: pf(v) for c, v in jb["s"].items()}
    kw["weight"] = pf(jb.get("w", "1"))
    if jb.get("id") is not None:
        kw["id"] = jb["id"]
    if jb.get("vs") is not None:
        kw["voter_set"] = set(jb["vs"])
    return Ballot(**kw)


def build_profile(jp):
    from votekit import PreferenceProfile

    ballots = tuple(build_ballot(b) for b in jp["ballots"])
    if jp.get("candidates") is None or jp.get("infer"):
        # candidates left to the profile to infer from the ballots (it goes through a set: listing order = hash order)
        return PreferenceProfile(ballots=ballots)
    return PreferenceProfile(ballots=ballots, candidates=tuple(jp["candidates"]))


def jprofile(cands, ballots):
    """ballots: list of (ranking(list of lists)|None, weight(Fraction|int), scores|None)"""
    out = []
    for b in ballots:
        r, w = b[0], b[1]
        s = b[2] if len(b) > 2 else None
        jb = {"r": None if r is None else [list(x) for x in r], "w": fs(Fraction(w))}
        if s:
            jb["s"] = {c: fs(Fraction(v)) for c, v in s.items()}
        out.append(jb)
    return {"candidates": list(cands), "ballots": out}


def profile_json(profile):
    """votekit profile object -> JSON profile (ties kept, contents merged, sorted): input for ref/scores.py"""
    out = []
    for (r, s), w in sorted(pmap(profile).items()):
        jb = {"r": [list(x) for x in r] if r else None, "w": fs(w)}
        if s:
            jb["s"] = {c: fs(v) for c, v in s}
        out.append(jb)
    return {"candidates": sorted(profile.candidates), "ballots": out}
