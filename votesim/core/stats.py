"""Exact binomial tail tests with a stated, tiny false-alarm rate (two-stage: screen, then confirm on a
fresh disjoint seeded stream).  A z-score is anti-conservative for small expected counts; scipy's exact
binom cdf/sf is used instead."""
from scipy.stats import binom

SCREEN_P = 1e-4
CONFIRM_P = 1e-10


def two_sided_p(k, n, p):
    if p <= 0.0:
        return 1.0 if k == 0 else 0.0
    if p >= 1.0:
        return 1.0 if k == n else 0.0
    lo = binom.cdf(k, n, p)
    hi = binom.sf(k - 1, n, p)
    return float(min(1.0, 2.0 * min(lo, hi)))


def screen(counts, n, probs, threshold=SCREEN_P):
    """cells whose observed count is incompatible with the law at the screening level"""
    out = []
    for cell, p in probs.items():
        k = counts.get(cell, 0)
        pv = two_sided_p(k, n, float(p))
        if pv < threshold:
            out.append((cell, k, float(p), pv))
    extra = [c for c in counts if c not in probs]
    for c in extra:
        out.append((c, counts[c], 0.0, 0.0))
    return out
