"""Worker: a fresh interpreter (explicit PYTHONHASHSEED) that executes a deterministic shard of runs.

Invoked as  python -m votesim.core.worker '<json job>'.
job = {prop, seed, tier, shard, nshards, n, deadline_s, out, digests}   or   {replay: path, out}
Run i uses run_seed = derive(seed, prop, i); shard w executes i = w, w+K, ...  so the set of runs
does not depend on the number of workers.  Nothing here reads a clock except to stop *issuing* runs.
"""
import faulthandler
import importlib
import json
import os
import sys
import time
import traceback

from .boot import boot, HOOK_ENV
from .seeds import derive, digest


def load_prop(prop):
    return importlib.import_module("votesim.props." + prop.lower())


def sig_key(sig):
    return json.dumps(sig, sort_keys=True)


def execute_guarded(mod, case, wall=None, **kw):
    """execute with the wall backstop; a wall alarm is retried once and only a repeat is a verdict"""
    from . import seams

    if wall is None:
        wall = getattr(mod, "WALL", 60.0)
    for attempt in (1, 2):
        try:
            # the wall clock is only a backstop (the round budget is the liveness oracle); the retry gets three times as long
            with seams.wall_guard(wall if attempt == 1 else 3 * wall):
                return mod.execute(case, **kw)
        except seams.WallAlarm:
            seams.uninstall()
            if attempt == 2:
                return {
                    "violations": [{"clause": "termination-wall", "message": f"no result after {wall}s twice", "sig": {"clause": "termination-wall", "rule": case.get("rule")}}],
                    "probes": {}, "faults": {}, "trace": "wall", "nontrivial": True, "rounds": 0, "draws": 0, "digest": "wall",
                }
    raise AssertionError


def minimise_violation(mod, case, key, known=False):
    from .shrink import minimise

    def same(cand):
        r = execute_guarded(mod, cand, wall=getattr(mod, "WALL", 10.0))
        return any(sig_key(v["sig"]) == key for v in r["violations"])

    steps = getattr(mod, "shrink_steps", None)
    if steps is None:
        return case, 0
    if known:
        # a listed finding: its replay file is only an illustration, do not spend the batch's time on it
        return minimise(case, steps, same, max_evals=40, max_seconds=5.0)
    return minimise(case, steps, same, max_evals=getattr(mod, "SHRINK_EVALS", 300), max_seconds=getattr(mod, "SHRINK_SECONDS", 30.0))


def make_replay(mod, prop, case, v, run_seed, index, orig_case, evals, orig_res=None):
    if orig_res is not None and case is orig_case:
        res = orig_res  # nothing was minimised: do not pay for a second execution (statistical cases are expensive)
    else:
        res = execute_guarded(mod, case, trace=True)
    vv = [x for x in res["violations"] if sig_key(x["sig"]) == sig_key(v["sig"])]
    return {
        "property": prop,
        "oracle_clause": v["clause"],
        "run_seed": run_seed,
        "run_index": index,
        "history": dict(JOB_HISTORY),
        "hashseed": os.environ.get("PYTHONHASHSEED", "random"),
        "hooks_env": {HOOK_ENV: os.environ.get(HOOK_ENV, "")},
        "case": case,
        "violation": {"sig": v["sig"], "message": (vv[0] if vv else v)["message"]},
        "schedule_trace": res.get("log", []),
        "event_digest": res.get("digest"),
        "minimised_from": {"size": mod.case_size(orig_case) if hasattr(mod, "case_size") else None,
                           "to": mod.case_size(case) if hasattr(mod, "case_size") else None, "evaluations": evals},
    }


JOB_HISTORY = {}


def run_shard(job):
    JOB_HISTORY.update(seed=job["seed"], tier=job["tier"], shard=job["shard"], nshards=job["nshards"], reverse=bool(job.get("reverse")))
    prop = job["prop"]
    mod = load_prop(prop)
    seed, tier = job["seed"], job["tier"]
    w, K, n = job["shard"], job["nshards"], job["n"]
    t_end = time.monotonic() + job.get("deadline_s", 3600)
    out = {
        "evaluations": 0, "sigs": [], "probes": {}, "faults": {}, "policies": {}, "rounds": 0, "draws": 0,
        "samples": [], "violations": {}, "harness_errors": [], "digests": {}, "stopped_early": False,
        "nontrivial_runs": 0, "extra": {},
    }
    sigs = set()
    from . import findings as _F0

    known_findings = _F0.load()
    indices = job.get("indices")
    it = indices if indices is not None else range(w, n, K)
    if job.get("reverse"):
        it = list(it)[::-1]  # self-test: a run's event log must not depend on which runs preceded it in the process
    if hasattr(mod, "setup_worker"):
        mod.setup_worker(job)
    for i in it:
        if time.monotonic() > t_end:
            out["stopped_early"] = True
            break
        run_seed = derive(seed, prop, i)
        try:
            # the case is what its JSON says: executing the round-tripped value makes a replay file exactly equivalent and
            # gives every occurrence of a name its own str object (as data loaded from files has), not one shared object
            case = json.loads(json.dumps(mod.generate(run_seed, tier)))
            res = execute_guarded(mod, case)
        except Exception as ex:  # harness failure: never a verdict
            out["harness_errors"].append({"index": i, "error": repr(ex), "tb": traceback.format_exc()[-1500:]})
            if len(out["harness_errors"]) > 5:
                break
            continue
        out["evaluations"] += 1
        out["rounds"] += res.get("rounds", 0)
        out["draws"] += res.get("draws", 0)
        for k, v in res.get("probes", {}).items():
            out["probes"][k] = out["probes"].get(k, 0) + v
        for k, v in res.get("faults", {}).items():
            out["faults"][k] = out["faults"].get(k, 0) + v
        for k, v in res.get("policies", {}).items():
            out["policies"][k] = out["policies"].get(k, 0) + v
        for k, v in res.get("extra", {}).items():
            out["extra"][k] = out["extra"].get(k, 0) + v
        if res.get("nontrivial"):
            out["nontrivial_runs"] += 1
            sigs.add(derive(res.get("trace", "")) & 0xFFFFFFFFFFFF)
            if len(out["samples"]) < 2:
                out["samples"].append({"run_index": i, "run_seed": run_seed, "case": case, "trace": res.get("trace"), "summary": res.get("summary")})
        if job.get("digests"):
            out["digests"][str(i)] = res.get("digest")
        for v in res["violations"]:
            key = sig_key(v["sig"])
            slot = out["violations"].get(key)
            if slot is None:
                try:
                    from . import findings as _F

                    mcase, evals = minimise_violation(mod, case, key, known=_F.classify(prop, v["sig"], known_findings) is not None)
                    rep = make_replay(mod, prop, mcase, v, run_seed, i, case, evals, orig_res=res)
                except Exception as ex:
                    out["harness_errors"].append({"index": i, "error": "minimise: " + repr(ex), "tb": traceback.format_exc()[-1500:]})
                    continue
                out["violations"][key] = {"count": 1, "first_index": i, "sig": v["sig"], "replay": rep}
            else:
                slot["count"] += 1
    out["sigs"] = sorted(sigs)
    return out


def run_replay(job):
    with open(job["replay"]) as fh:
        rep = json.load(fh)
    mod = load_prop(rep["property"])
    if hasattr(mod, "setup_worker"):
        mod.setup_worker({"tier": "quick", "replay": True})
    if job.get("with_history") or rep.get("needs_history"):
        # the violation depends on what ran earlier in the same interpreter (state carried across calls in the code under
        # test): re-execute the worker's deterministic run sequence up to and including the violating run
        h = rep["history"]
        want = sig_key(rep["violation"]["sig"])
        res = None
        for i in range(h["shard"], rep["run_index"] + 1, h["nshards"]):
            case = json.loads(json.dumps(mod.generate(derive(h["seed"], rep["property"], i), h["tier"])))
            res = execute_guarded(mod, case)
        got = [v for v in (res["violations"] if res else []) if sig_key(v["sig"]) == want]
        return {"reproduced": bool(got), "same_message": bool(got), "same_digest": True, "violations": res["violations"] if res else [], "digest": res.get("digest") if res else None,
                "with_history": True}
    res = execute_guarded(mod, rep["case"], trace=True)
    want = sig_key(rep["violation"]["sig"])
    got = [v for v in res["violations"] if sig_key(v["sig"]) == want]
    return {
        "reproduced": bool(got),
        "same_message": bool(got) and got[0]["message"] == rep["violation"]["message"],
        "same_digest": res.get("digest") == rep.get("event_digest"),
        "violations": res["violations"],
        "digest": res.get("digest"),
    }


def main():
    job = json.loads(sys.argv[1])
    faulthandler.enable()
    faulthandler.dump_traceback_later(job.get("hard_timeout_s", 3000), exit=True)
    boot()
    from . import seams

    seams.install_recorder()
    if "replay" in job:
        out = run_replay(job)
    else:
        out = run_shard(job)
    tmp = job["out"] + ".tmp"
    with open(tmp, "w") as fh:
        json.dump(out, fh)
    os.replace(tmp, job["out"])


if __name__ == "__main__":
    main()
