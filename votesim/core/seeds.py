"""One integer decides everything: every stream of a run is derived from VERIF_SEED by hashing."""
import hashlib
import random


def derive(*parts) -> int:
    h = hashlib.blake2b(digest_size=8)
    for p in parts:
        h.update(repr(p).encode())
        h.update(b"\x00")
    return int.from_bytes(h.digest(), "big")


def stream(*parts) -> random.Random:
    return random.Random(derive(*parts))


def keyhash(*parts) -> int:
    return derive(*parts)


def digest(obj) -> str:
    """Stable digest of a JSON-able object (used for event-log and trace digests)."""
    import json

    h = hashlib.blake2b(digest_size=8)
    h.update(json.dumps(obj, sort_keys=True, separators=(",", ":"), default=str).encode())
    return h.hexdigest()
