"""Known findings: read-only at run time.  A violation is a known finding only if *every* component of
a listed signature matches its own signature; `fixed` entries suppress nothing."""
import json
import os

from .boot import VERIF

PATH = os.path.join(VERIF, "known_findings.json")


def load():
    if not os.path.exists(PATH):
        return []
    with open(PATH) as fh:
        return json.load(fh).get("findings", [])


def _match_one(want, got):
    if isinstance(want, list):
        return got in want
    return want == got


def classify(prop, sig, findings=None):
    """-> the open finding entry this signature belongs to, or None"""
    if findings is None:
        findings = load()
    for f in findings:
        if f.get("property") != prop or f.get("status") != "open":
            continue
        m = f.get("match", {})
        if m and all(_match_one(v, sig.get(k)) for k, v in m.items()):
            return f
    return None
