"""Greedy minimiser over explicit JSON cases.

`steps(case)` yields structurally smaller candidates (most aggressive first); a candidate is kept
when `same_class(candidate)` says the *same violation class* persists.  Restart from the top after
each success; bounded by an evaluation and a wall budget.  Cases are tiny (<= 7 candidates, <= 10
ballots, <= 12 operations) so this converges in tens of evaluations.
"""
import time


def minimise(case, steps, same_class, max_evals=300, max_seconds=30.0):
    t0 = time.monotonic()
    evals = 0
    cur = case
    improved = True
    while improved:
        improved = False
        for cand in steps(cur):
            if evals >= max_evals or time.monotonic() - t0 > max_seconds:
                return cur, evals
            evals += 1
            try:
                ok = same_class(cand)
            except Exception:
                ok = False
            if ok:
                cur = cand
                improved = True
                break
    return cur, evals


def ddmin_list(items, test, max_evals=200):
    """classic delta debugging on a list; test(sublist) -> True when the failure persists"""
    evals = 0
    n = 2
    cur = list(items)
    while len(cur) >= 2 and evals < max_evals:
        size = max(1, len(cur) // n)
        chunks = [cur[i : i + size] for i in range(0, len(cur), size)]
        reduced = False
        for i in range(len(chunks)):
            comp = [x for j, ch in enumerate(chunks) if j != i for x in ch]
            evals += 1
            if comp and test(comp):
                cur = comp
                n = max(n - 1, 2)
                reduced = True
                break
        if not reduced:
            if size == 1:
                break
            n = min(n * 2, len(cur))
    return cur
