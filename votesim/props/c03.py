"""C03 -- surplus transfers and STV rounds conserve votes.

Three harnesses sharing the random seam and the recorder:
 T  transfer functions driven directly with generated (winner, ballot list, threshold); the random rule's draw is
    observed at the `random.sample` seam (population must be exactly the winner's transferable unit ballots, k = surplus
    capped by that pile) and the output must be the untouched ballots plus exactly the drawn ones;
 F  end-to-end frequency of inclusion under the genuine seeded generator (exact binomial, two-stage);
 S  whole STV runs: weight ledger per recorded round.
"""
from fractions import Fraction

from ..core import canon, seams, stats
from ..core.seeds import stream, digest, derive
from ..gen import profiles as G
from ..ref import stv as R
from . import common

ID = "C03"
RUNS = {"quick": 20000, "thorough": 1500000}
TIME = {"quick": 150, "thorough": 1500}
WALL = 300.0
RULE_TEXT = (
    "case kinds: T = seeded (winner, ballot list with duplicates/exhausted/not-winner-led/id+voter-set ballots, threshold in [1, tally]) passed to "
    "fractional_transfer or random_transfer under a scheduled random seam; S = seeded STV run (fractional or random transfer) with a per-round weight "
    "ledger; F = 2000-20000 seeded genuine-generator calls of random_transfer with an exact-binomial inclusion test. non-trivial = T with >=2 "
    "winner-led rankings and a positive surplus, S with >=2 rounds, any F; distinct = distinct (kind, rule, shape, threshold relation, round kinds) signature"
)
ASSUMPTIONS = [
    "when the surplus exceeds the winner's transferable ballots the random rule moves all of them (behaviour after fix a7b9fbc); the statement's 'total size tally-threshold' is read as capped by what can move",
    "ballots in the list that are not led by the winner keep their full weight (the transfer functions' documented behaviour)",
    "uniformity of the random rule = the seam observes random.sample(population = all transferable unit ballots, k) and the output contains exactly the drawn ballots; the F arm additionally tests inclusion frequencies with a per-cell false-alarm probability < 1e-10",
]
CANDS = ["A", "B", "C", "D", "E"]


def case_size(case):
    if case["kind"] == "S":
        return common.case_size(case)
    return {"ballots": len(case.get("ballots", [])), "threshold": case.get("threshold")}


def gen_bulk_pile_case(rng, run_seed):
    """random transfer from a pile of more than 50 000 / 65 536 whole ballots in which the same continuing ranking occurs in
    several separate entries: the scale at which an implementation may stop expanding unit ballots and start counting them"""
    cands = CANDS[:4]
    winner = cands[0]
    others = cands[1:]
    big = rng.choice([50001, 60000, 65537, 70001])
    r1 = [[winner]] + [[c] for c in rng.sample(others, 2)]
    ballots = [{"r": r1, "w": str(big)}, {"r": [list(g) for g in r1], "w": str(rng.randint(2, 9))},
               {"r": [[winner], [rng.choice(others)]], "w": str(rng.randint(1, 5))}, {"r": [[winner]], "w": str(rng.randint(1, 5))},
               {"r": [[others[0]], [winner], [others[1]]], "w": str(rng.randint(1, 9))}]
    rng.shuffle(ballots)
    fpv = sum(int(b["w"]) for b in ballots if b["r"][0] == [winner])
    thr = fpv - rng.randint(3, 20)
    pol = rng.choice(common.gen_policies(rng, run_seed))
    return {"kind": "T", "fn": "random", "winner": winner, "ballots": ballots, "threshold": thr, "policies": [pol]}


def gen_transfer_case(rng, run_seed):
    if rng.random() < 0.0015:
        return gen_bulk_pile_case(rng, run_seed)
    fn = rng.choice(["fractional", "random"])
    n = rng.randint(2, 5)
    # multi-character names half of the time: equal names are then distinct str objects (single characters are shared singletons)
    cands = (CANDS if rng.random() < 0.5 else ["Alice", "Bobby", "Carol", "Dee Dee", "Eve"])[:n]
    winner = rng.choice(cands)
    others = [c for c in cands if c != winner]
    nb = rng.randint(1, 8)
    ballots = []
    for _ in range(nb):
        if ballots and rng.random() < 0.2:
            b = dict(rng.choice(ballots))
        else:
            led = rng.random() < 0.75
            if led:
                k = 0 if rng.random() < 0.2 else rng.randint(1, len(others))
                r = [[winner]] + [[c] for c in rng.sample(others, k)]
            else:
                k = rng.randint(1, len(others))
                rest = rng.sample(others, k)
                r = [[c] for c in rest]
                if rng.random() < 0.5:
                    r.insert(rng.randint(1, len(r)), [winner])
                    if rng.random() < 0.3:
                        # the winner shares a (tied) position with a neighbour: only the winner may disappear from it
                        i = r.index([winner])
                        j = i - 1 if (i == len(r) - 1 or rng.random() < 0.5) else i + 1
                        lo, hi = min(i, j), max(i, j)
                        r = r[:lo] + [sorted(r[lo] + r[hi])] + r[hi + 1 :]
            if len(r) >= 3 and rng.random() < 0.1:
                # a tied position among non-winners
                i = next((j for j in range(len(r) - 1) if winner not in r[j] and winner not in r[j + 1]), None)
                if i is not None:
                    r = r[:i] + [sorted(r[i] + r[i + 1])] + r[i + 2 :]
            b = {"r": r}
        if fn == "random":
            w = Fraction(rng.choice([1, 1, 2, 3, 5]))
        else:
            w = G.gen_weight(rng, rng.choice(["small", "mid", "rat", "rat"]))
        b = dict(b, w=canon.fs(w))
        if rng.random() < 0.2:
            b["id"] = "id%d" % rng.randint(0, 3)
        if rng.random() < 0.2:
            b["vs"] = sorted(rng.sample(["v1", "v2", "v3"], rng.randint(1, 2)))
        ballots.append(b)
    if not any(b["r"][0] == [winner] for b in ballots):
        ballots.append({"r": [[winner]] + [[c] for c in rng.sample(others, rng.randint(0, len(others)))], "w": "2"})
    fpv = sum((Fraction(b["w"]) for b in ballots if b["r"][0] == [winner]), Fraction(0))
    if fpv < 1:
        ballots.append({"r": [[winner], [others[0]]], "w": "2"})
        fpv += 2
    hi = fpv.__floor__()
    rel = G.wchoice(rng, [("equal", 2), ("any", 6), ("one", 1)])
    if rel == "equal" and fpv.denominator == 1:
        thr = hi
    elif rel == "one":
        thr = 1
    else:
        thr = rng.randint(1, hi)
    pol = rng.choice(common.gen_policies(rng, run_seed))
    return {"kind": "T", "fn": fn, "winner": winner, "ballots": ballots, "threshold": thr, "policies": [pol]}


def generate(run_seed, tier):
    rng = stream(run_seed, "gen")
    kind = G.wchoice(rng, [("T", 70), ("S", 30), ("F", 0.25 if tier == "quick" else 0.5)])
    if kind == "T":
        return gen_transfer_case(rng, run_seed)
    if kind == "F":
        c = gen_transfer_case(rng, run_seed)
        # a pile with several multiplicity-1 rankings and a real surplus
        w = "W"
        c.update(kind="F", fn="random", winner=w, policies=[{"kind": "seeded", "seed": derive(run_seed, "freq") % 10**9}])
        conts = [["A"], ["B"], ["A", "B"], ["B", "A"], ["C"], ["A", "C"]]
        rng.shuffle(conts)
        m = rng.randint(3, 6)
        c["ballots"] = [{"r": [[w]] + [[x] for x in ct], "w": "1"} for ct in conts[:m]] + [{"r": [[w], ["D"]], "w": str(rng.randint(2, 4))}] + [{"r": [[w]], "w": "2"}]
        tot = m + int(c["ballots"][-2]["w"]) + 2
        c["threshold"] = rng.randint(2, tot - 2)
        return c
    case = G.gen_rule_case(rng, rules=("STV",), max_c=6)
    case["kind"] = "S"
    case["policies"] = common.gen_policies(rng, run_seed, kinds=("asc", "desc", "seeded"))
    return case


def shrink_steps(case):
    if case["kind"] == "S":
        yield from common.rule_case_steps(case)
        return
    bs = case["ballots"]
    w = case["winner"]
    for i in range(len(bs)):
        nb = bs[:i] + bs[i + 1 :]
        fpv = sum((Fraction(b["w"]) for b in nb if b["r"][0] == [w]), Fraction(0))
        if fpv >= case["threshold"] and fpv >= 1:
            yield dict(case, ballots=nb)
    for i, b in enumerate(bs):
        for key in ("id", "vs"):
            if key in b:
                nb = {k: v for k, v in b.items() if k != key}
                yield dict(case, ballots=bs[:i] + [nb] + bs[i + 1 :])
        if len(b["r"]) > 1 and b["r"][-1] != [w]:
            yield dict(case, ballots=bs[:i] + [dict(b, r=b["r"][:-1])] + bs[i + 1 :])
    if case["threshold"] > 1:
        yield dict(case, threshold=case["threshold"] - 1)
    if case["policies"][0]["kind"] != "asc" and case["kind"] == "T":
        yield dict(case, policies=[{"kind": "asc"}])


# ---------------------------------------------------------------------------------------------
def strip_ranking(r, w):
    out = [[c for c in g if c != w] for g in r]
    return tuple(tuple(sorted(g)) for g in out if g)


def expected_base(case):
    """(others map, winner-led transferable list [(ranking_after, weight)], fpv)"""
    w = case["winner"]
    base, led = {}, []
    fpv = Fraction(0)
    for b in case["ballots"]:
        wt = Fraction(b["w"])
        nr = strip_ranking(b["r"], w)
        if b["r"][0] == [w]:
            fpv += wt
            led.append((nr, wt))
        else:
            if nr and wt > 0:
                base[nr] = base.get(nr, Fraction(0)) + wt
    return base, led, fpv


def out_map(ballots):
    d = {}
    for b in ballots:
        k = tuple(tuple(sorted(s)) for s in (b.ranking or ()))
        d[k] = d.get(k, Fraction(0)) + Fraction(b.weight)
    return d


def call_transfer(case):
    import votekit.elections.transfers as T

    bl = [canon.build_ballot(b) for b in case["ballots"]]
    fn = T.fractional_transfer if case["fn"] == "fractional" else T.random_transfer
    _, _, fpv = expected_base(case)
    return fn(case["winner"], fpv, bl, case["threshold"])


def check_transfer_output(case, out, seam_log):
    """-> list of (clause, msg)"""
    bad = []
    w = case["winner"]
    q = case["threshold"]
    base, led, fpv = expected_base(case)
    got = out_map(out)
    for r, wt in got.items():
        if any(w in g for g in r):
            bad.append(("mentions-winner", f"output ballot {r} still mentions the winner {w}"))
        if not r:
            bad.append(("empty-ballot", "output contains a ballot with no ranking"))
        if wt <= 0:
            bad.append(("nonpositive-weight", f"output ballot {r} has weight {wt}"))
    origins = {strip_ranking(b["r"], w) for b in case["ballots"]}
    for r in got:
        if r not in origins:
            bad.append(("order", f"output ranking {r} is not an input ranking with the winner deleted (relative order changed?)"))
    if bad:
        return bad
    if case["fn"] == "fractional":
        tv = (fpv - q) / fpv
        exp = dict(base)
        for nr, wt in led:
            if nr and wt * tv > 0:
                exp[nr] = exp.get(nr, Fraction(0)) + wt * tv
        if got != exp:
            bad.append(("fractional-weights", f"transferred weights {fmt(got)} but weight*(tally-threshold)/tally gives {fmt(exp)} (tally {fpv}, threshold {q})"))
        return bad
    # random rule
    pile = []
    for nr, wt in led:
        if nr:
            pile += [nr] * int(wt)
    k = min(int(fpv) - q, len(pile))
    draws = [e for e in seam_log if e["kind"] == "sample" and e["site"].endswith("random_transfer")]
    if not draws and k == 0:
        # nothing to draw: an implementation may skip the empty draw; the output must then be the untouched ballots
        if got != base:
            bad.append(("random-output", f"no surplus to transfer, yet output {fmt(got)} differs from the untouched ballots {fmt(base)}"))
        return bad
    ballot_draws = [e for e in draws if e["pop"] and all(isinstance(b, dict) and "r" in b for b in e["pop"])]
    if len(ballot_draws) != 1:
        if ballot_draws:
            bad.append(("random-draw", f"{len(ballot_draws)} draws of ballots observed at the seam of random_transfer, expected exactly one"))
            return bad
        # the implementation does not draw ballots in a recognisable form (e.g. it samples indices): accept any output that is
        # the untouched ballots plus SOME sub-collection of the pile of the right size, provided a draw was made at all whenever
        # the choice was a real one (uniformity is then left to the F arm)
        cnt = {}
        for nr in pile:
            cnt[nr] = cnt.get(nr, 0) + 1
        moved = {r: got.get(r, Fraction(0)) - base.get(r, Fraction(0)) for r in set(got) | set(base)}
        if any(v < 0 or v.denominator != 1 or v > cnt.get(r, 0) for r, v in moved.items()) or sum(moved.values(), Fraction(0)) != k:
            bad.append(("random-output", f"output {fmt(got)} is not the untouched ballots {fmt(base)} plus {k} of the winner's transferable ballots"))
        elif 0 < k < len(pile) and len(cnt) >= 2 and not any(e["nt"] for e in seam_log):
            bad.append(("random-draw", "the surplus ballots were picked without any random draw although the choice was a real one"))
        return bad
    d = ballot_draws[0]
    pop = sorted(tuple(tuple(g) for g in b["r"]) for b in d["pop"])
    if pop != sorted(pile):
        bad.append(("random-population", f"draw population has {len(pop)} unit ballots {pop[:6]}.. but the winner's transferable unit ballots are {len(pile)}: {sorted(pile)[:6]}.."))
    if d["k"] != k:
        bad.append(("random-size", f"draw size {d['k']} but surplus is min(tally-threshold={int(fpv) - q}, transferable={len(pile)})"))
    if any(Fraction(b["w"]) != 1 for b in d["pop"]):
        bad.append(("random-unit", "draw population contains ballots of weight != 1"))
    exp = dict(base)
    for b in d["out"]:
        nr = tuple(tuple(g) for g in b["r"])
        exp[nr] = exp.get(nr, Fraction(0)) + 1
    if got != exp:
        bad.append(("random-output", f"output {fmt(got)} is not the untouched ballots plus exactly the drawn ones {fmt(exp)}"))
    tot_led = sum(got.values(), Fraction(0)) - sum(base.values(), Fraction(0))
    if tot_led != k:
        bad.append(("random-total", f"{tot_led} winner ballots moved on, expected {k}"))
    return bad


def fmt(m):
    return {">".join("=".join(g) for g in r): canon.fs(v) for r, v in sorted(m.items())}


def ledger(e, kind, seam_log):
    """whole-run weight ledger on the recorded rounds -> list of (clause, msg), info"""
    bad = []
    info = {"rounds": 0, "exhausted_rounds": 0, "elect_rounds": 0, "elim_rounds": 0, "kinds": []}
    q = e.threshold
    st = e.election_states
    prevW = None
    for r, (pin, prev_c, pout) in enumerate(seams.recorded(e), start=1):
        if r >= len(st):
            break
        s = st[r]
        info["rounds"] += 1
        rm = canon.rmap(pin)
        W0 = sum(rm.values(), Fraction(0))
        W1 = sum((Fraction(b.weight) for b in pout.ballots), Fraction(0))
        if prevW is not None and W0 != prevW:
            bad.append(("ledger-chain", f"round {r}: starts with weight {W0} but the previous round ended with {prevW}"))
        if W1 > W0:
            bad.append(("weight-increased", f"round {r}: total weight rose from {W0} to {W1}"))
        t = R.tallies(rm, sorted(pin.candidates))
        winners = sorted(c for g in s.elected for c in g)
        elim = sorted(c for g in s.eliminated for c in g)
        quota_elected = [c for c in winners if t.get(c, 0) >= q]
        if winners and quota_elected:
            info["elect_rounds"] += 1
            info["kinds"].append("E")
            # exhausted weight: transferred parts whose continuation (after deleting all winners) is empty
            exh = Fraction(0)
            if kind == "frac":
                for rk, wt in rm.items():
                    if rk and rk[0] in winners:
                        tv = (t[rk[0]] - q) / t[rk[0]]
                        if not [c for c in rk if c not in winners]:
                            exh += wt * tv
                    elif rk and not [c for c in rk if c not in winners]:
                        exh += wt
                exp = W0 - q * len(winners) - exh
            else:
                # random rule: per winner the drawn ballots are in the seam log
                moved = Fraction(0)
                kept = Fraction(0)
                for rk, wt in rm.items():
                    if rk and rk[0] not in winners:
                        if [c for c in rk if c not in winners]:
                            kept += wt
                opaque = False
                for en in seam_log:
                    if en["kind"] == "sample" and en["site"].endswith("random_transfer") and en["ctx"] and en["ctx"][1] == r and en["ctx"][2] and en["ctx"][0] == "STV":
                        if en["out"] and not all(isinstance(b, dict) and "r" in b for b in en["out"]):
                            opaque = True  # the implementation draws indices or the like: the moved ballots are not visible here
                            continue
                        for b in en["out"]:
                            if [c for g in b["r"] for c in g if c not in winners]:
                                moved += 1
                if opaque:
                    # bounds only: untouched ballots stay, at most the capped surplus of each winner moves on
                    cap = Fraction(0)
                    for w in winners:
                        pile_w = sum((wt for rk, wt in rm.items() if rk and rk[0] == w and len(rk) > 1), Fraction(0))
                        cap += min(t[w] - q, pile_w)
                    if not (kept <= W1 <= kept + cap) or (W1 - kept).denominator != 1:
                        bad.append(("ledger", f"round {r} (elected {winners}): weight {W0} -> {W1}, expected between {kept} (untouched ballots) and {kept + cap} (plus the capped surplus)"))
                    prevW = W1
                    continue
                exp = kept + moved
                # the drop must be at least the threshold per winner
                if W0 - exp < q * len(winners):
                    bad.append(("ledger", f"round {r}: weight dropped by {W0 - exp} < threshold {q} x {len(winners)} winners"))
            if W1 != exp:
                bad.append(("ledger", f"round {r} (elected {winners}): weight {W0} -> {W1}, expected {exp} = previous - threshold {q} x {len(winners)} - exhausted"))
            if exp < W0 - q * len(winners):
                info["exhausted_rounds"] += 1
        elif winners:
            info["kinds"].append("D")
            if W1 != 0:
                bad.append(("ledger", f"round {r}: default election left weight {W1}"))
        elif elim:
            info["elim_rounds"] += 1
            info["kinds"].append("x")
            exh = sum((wt for rk, wt in rm.items() if rk and not [c for c in rk if c not in elim]), Fraction(0))
            if W1 != W0 - exh:
                bad.append(("ledger", f"round {r} (eliminated {elim}): weight {W0} -> {W1}, expected {W0 - exh} (only ballots with no surviving choice may disappear)"))
            if exh:
                info["exhausted_rounds"] += 1
        prevW = W1
    return bad, info


def execute(case, trace=False):
    violations, probes, faults, policies = [], {}, {}, {}
    logs = []

    def bump(d, k, v=1):
        if v:
            d[k] = d.get(k, 0) + v

    def viol(clause, msg, **sig):
        s = {"kind": case["kind"], "fn": case.get("fn", case.get("kw", {}).get("transfer")), "clause": clause}
        s.update(sig)
        violations.append({"clause": clause, "message": msg, "sig": s})

    if case["kind"] == "T":
        pol = case["policies"][0]
        bump(policies, pol["kind"])
        base, led, fpv = expected_base(case)
        q = case["threshold"]
        pile = sum(int(wt) if case["fn"] == "random" else 1 for nr, wt in led if nr)
        bump(faults, "surplus_zero", int(fpv == q))
        bump(faults, "exhausted_in_pile", int(any(not nr for nr, _ in led)))
        bump(faults, "not_winner_led_ballots", int(bool(base)))
        bump(faults, "duplicate_ballots", int(len({repr(b["r"]) for b in case["ballots"]}) < len(case["ballots"])))
        bump(faults, "id_or_voter_set", int(any("id" in b or "vs" in b for b in case["ballots"])))
        bump(faults, "surplus_exceeds_transferable", int(case["fn"] == "random" and int(fpv) - q > pile))
        with seams.scheduled(pol) as seam, seams.quiet():
            try:
                out = call_transfer(case)
                exc = None
            except Exception as ex:
                out, exc = None, ex
        if exc is not None:
            viol("transfer-raised", f"{case['fn']}_transfer(winner={case['winner']}, tally={fpv}, threshold={q}) raised {type(exc).__name__}({str(exc)[:80]})", exc=type(exc).__name__)
        else:
            for clause, msg in check_transfer_output(case, out, seam.log):
                viol(clause, f"{case['fn']}_transfer(winner={case['winner']}, tally={fpv}, threshold={q}) under schedule {pol['kind']}: {msg}")
        nontrivial = len({nr for nr, _ in led if nr}) >= 2 and fpv > q
        tr = f"T|{case['fn']}|{len(case['ballots'])}|{len(led)}|{'eq' if fpv == q else 'gt'}|{bool(base)}|{pile > int(fpv - q) if case['fn'] == 'random' else ''}|{sorted(len(nr) for nr, _ in led)}"
        res = {"violations": violations, "probes": probes, "faults": faults, "policies": policies, "trace": tr, "nontrivial": nontrivial,
               "rounds": 1, "draws": seam.draws, "digest": digest([canon.cpmap(out) if out is not None else type(exc).__name__, common.log_outcomes(seam)]),
               "summary": {"fn": case["fn"], "tally": canon.fs(fpv), "threshold": q}}
        if trace:
            res["log"] = [{"policy": pol, "draws": common.trim_log(seam), "output": canon.cpmap(out) if out is not None else None}]
        return res
    if case["kind"] == "F":
        return execute_freq(case, trace)
    # ---- whole STV runs
    rounds = draws = 0
    nontrivial = False
    kind = "random" if case["kw"].get("transfer") == "random" else "frac"
    shapes, digs = [], []
    for pol in case["policies"]:
        o = common.run_rule(case, pol)
        bump(policies, pol["kind"])
        draws += o.seam.draws
        e = o.election
        if e is None:
            part = [x for x in o.live if type(x).__name__ == "STV"]
            e = part[0] if part else None
            bump(probes, "raised:" + type(o.exc).__name__)
        if e is None:
            shapes.append("X")
            continue
        bad, info = ledger(e, kind, o.seam.log)
        rounds += info["rounds"]
        bump(faults, "rounds_losing_exhausted_weight", info["exhausted_rounds"])
        bump(faults, "election_rounds", info["elect_rounds"])
        bump(faults, "elimination_rounds", info["elim_rounds"])
        if info["rounds"] >= 2:
            nontrivial = True
        shapes.append("".join(info["kinds"]))
        digs.append(canon.cstates(e))
        for clause, msg in bad:
            viol(clause, f"STV {case['kw']} under schedule {pol['kind']}: {msg}", rule="STV")
        if trace:
            logs.append({"policy": pol, "draws": common.trim_log(o.seam), "states": canon.cstates(e)})
    res = {"violations": violations, "probes": probes, "faults": faults, "policies": policies,
           "trace": f"S|{sorted((k, str(v)) for k, v in case['kw'].items())}|{shapes}", "nontrivial": nontrivial, "rounds": rounds, "draws": draws,
           "digest": digest(digs), "summary": {"round kinds per schedule": shapes}}
    if trace:
        res["log"] = logs
    return res


def execute_freq(case, trace=False):
    """inclusion frequency of each multiplicity-1 transferable ranking under the genuine seeded generator"""
    import random as pyrandom

    violations = []
    base, led, fpv = expected_base(case)
    q = case["threshold"]
    pile = sum(int(wt) for nr, wt in led if nr)
    k = min(int(fpv) - q, pile)
    singles = [nr for nr, wt in led if nr and wt == 1 and sum(1 for x, _ in led if x == nr) == 1]
    p = Fraction(k, pile) if pile else Fraction(0)
    seed0 = case["policies"][0]["seed"]

    def sample(n, seed):
        counts = {nr: 0 for nr in singles}
        seams.uninstall()
        seams.seed_real_streams(seed)
        for _ in range(n):
            with seams.quiet():
                out = out_map(call_transfer(case))
            for nr in singles:
                if out.get(nr, 0) > base.get(nr, 0):
                    counts[nr] += 1
        return counts

    n1, n2 = 2000, 20000
    c1 = sample(n1, derive(seed0, "stage1"))
    flagged = stats.screen(c1, n1, {nr: p for nr in singles})
    confirmed = []
    if flagged:
        c2 = sample(n2, derive(seed0, "stage2"))
        confirmed = stats.screen({c: c2[c] for c, *_ in flagged}, n2, {c: p for c, *_ in flagged}, threshold=stats.CONFIRM_P)
    for cell, kk, pp, pv in confirmed:
        violations.append({"clause": "inclusion-frequency", "message": f"random_transfer: ranking {cell} included {kk}/{n2} times, law {float(pp):.4f} (p={pv:.2e})",
                           "sig": {"kind": "F", "fn": "random", "clause": "inclusion-frequency"}})
    res = {"violations": violations, "probes": {"freq_cells": len(singles), "freq_screened": len(flagged)}, "faults": {"genuine_generator_calls": n1 + (n2 if flagged else 0)},
           "policies": {"seeded(genuine generator)": 1}, "trace": f"F|{len(singles)}|{pile}|{k}", "nontrivial": True, "rounds": n1, "draws": n1,
           "digest": digest(sorted((str(c), v) for c, v in c1.items())), "summary": {"inclusion_law": float(p), "stage1_counts": {str(c): v for c, v in c1.items()}}}
    if trace:
        res["log"] = [{"stage1": {str(c): v for c, v in c1.items()}, "n1": n1, "p": float(p)}]
    return res
