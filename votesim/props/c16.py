"""C16 -- generated ballots follow the documented model distributions.

Three instruments:
 F  seeded frequency tests (genuine generators behind the run seed) against enumerated laws; exact binomial tails,
    two-stage (screen n1 at p<1e-4, confirm on a fresh disjoint stream n2=10*n1 at p<1e-10);
 K  exact Markov-kernel extraction of the MCMC samplers by *scripting* every draw of one chain step at the random
    seam (proposal index and acceptance uniform), assembling the transition matrix and checking pi K = pi;
 S  spatial generators, every stream: each ballot must rank the candidates by increasing distance from the voter's
    sampled position (positions returned by the generator, or observed at the numpy seam for OneDimSpatial).
"""
import itertools as it
import math

import numpy as np

from ..core import canon, seams, stats
from ..core.seeds import stream, digest, derive
from ..gen import genparams as GP
from ..gen.profiles import wchoice
from ..ref import laws as L
from . import common

ID = "C16"
RUNS = {"quick": 520, "thorough": 20000}
TIME = {"quick": 150, "thorough": 1500}
N1 = {"quick": 3000, "thorough": 4000}
WALL = 240.0
FREQ_MODELS = ("name_PlackettLuce", "short_name_PlackettLuce", "name_BradleyTerry", "name_Cumulative", "slate_PlackettLuce", "slate_BradleyTerry",
               "ImpartialCulture", "AlternatingCrossover", "CambridgeSampler")
RULE_TEXT = (
    "case kinds: F = (model, well-conditioned seeded parameter set: 1-2 blocs, slates 1-3, supports in {.5..5} with occasional zero support, cohesion on both "
    "sides of 1/2, unequal proportions) sampled n1 ballots per case and compared cell by cell with the enumerated law per voter bloc; K = MCMC kernel "
    "extraction for name-BT and slate-BT (every state x every proposal, acceptance located by bisection on the scripted uniform); S = spatial model with seeded "
    "positions. non-trivial = every K and S case, F cases with >=6 cells; distinct = distinct (kind, model, parameter pattern) signature"
)
ASSUMPTIONS = [
    "statistical verdicts need two disjoint seeded samples and p < 1e-10 per cell (union bound keeps a whole thorough run's false-alarm rate below 1e-6)",
    "numpy.random.choice(replace=False, p=...) and random.choices are trusted to implement their documented laws; the kernel extraction trusts random.choices/np.random.choice to be uniform on the proposal index (the population is observed at the seam)",
    "CambridgeSampler: the historical ballot-type table is data; only the within-slate orders (conditional on how many of the slate's candidates appear) are tested",
]
REAL_VS_STUB = ("real: votekit generators and tables; F/S arms use the genuine random/numpy generators seeded from the run seed (default_rng patched); "
                "K arm replaces ballot_generator.random / ballot_generator.np.random by the scripted seam; stub: `ot` import only")


def case_size(case):
    return {"kind": case["kind"], "model": case.get("model"), "n1": case.get("n1")}


# ------------------------------------------------------------------------------------------ generation
def gen_params(rng, model):
    nb = 2 if model in ("AlternatingCrossover", "CambridgeSampler") else wchoice(rng, [(1, 3), (2, 5), (3, 2.5)])
    if model == "slate_BradleyTerry" and nb != 2:
        nb = 2
    blocs = GP.BLOC_NAMES[:nb]
    sizes = [rng.randint(1, 3) for _ in blocs]
    while sum(sizes) > 5:
        sizes[sizes.index(max(sizes))] -= 1
    if model in ("slate_PlackettLuce", "slate_BradleyTerry", "AlternatingCrossover", "CambridgeSampler") and sum(sizes) < 3:
        sizes[0] += 1
    if nb == 3 and model == "slate_PlackettLuce" and sum(sizes) < 5:
        # a slate can only be "used up while two others are still open" if the slates have room
        sizes = [2, 2, 1]
        rng.shuffle(sizes)
    slates = {b: ["%s%d" % (b.lower(), i + 1) for i in range(s)] for b, s in zip(blocs, sizes)}
    if rng.random() < 0.3:
        pools = {"A": ["Al", "Bo", "Cy"], "B": ["Charlotte", "Dominique St-Pierre", "Ev"], "C": ["x", "Maximilian", "Zoë Q"]}
        slates = {b: pools[b][:s] for b, s in zip(blocs, sizes)}
    if rng.random() < 0.12:
        # a ticket named after its lead candidate: the first candidate of every slate carries the slate's name
        slates = {b: [b] + list(v[1:]) for b, v in slates.items()}
    p0 = rng.choice([0.3, 0.4, 0.5, 0.6, 0.7])
    if nb == 1:
        props = {blocs[0]: 1.0}
    elif nb == 2:
        props = {blocs[0]: p0, blocs[1]: round(1 - p0, 10)}
    else:
        props = dict(zip(blocs, rng.choice([[0.5, 0.3, 0.2], [0.4, 0.4, 0.2], [0.2, 0.3, 0.5]])))
    cohesion = {}
    for b in blocs:
        if nb == 1:
            cohesion[b] = {b: 1.0}
        elif nb == 2:
            c = rng.choice([0.2, 0.3, 0.4, 0.6, 0.7, 0.8, 0.5])
            o = [x for x in blocs if x != b][0]
            cohesion[b] = {b: c, o: round(1 - c, 10)}
        else:
            row = list(rng.choice([[0.6, 0.3, 0.1], [0.5, 0.25, 0.25], [0.2, 0.5, 0.3], [0.7, 0.3, 0.0]]))
            rng.shuffle(row)
            cohesion[b] = dict(zip(blocs, row))
    intervals = {}
    for b in blocs:
        intervals[b] = {}
        for s in blocs:
            vals = [rng.choice([0.5, 1, 2, 3, 5]) for _ in slates[s]]
            if len(vals) > 1 and rng.random() < 0.2 and model not in ("AlternatingCrossover",):
                vals[rng.randrange(len(vals))] = 0
            if len(vals) >= 3 and rng.random() < 0.12:
                # two strictly positive but tiny supports (ratio 3:2): their relative order is still a Plackett-Luce draw
                i, j = rng.sample(range(len(vals)), 2)
                vals[i], vals[j] = 3e-9, 2e-9
            items = list(zip(slates[s], vals))
            if rng.random() < 0.5:
                rng.shuffle(items)  # the interval's key order need not be the slate's listing order
            intervals[b][s] = dict(items)
    def reorder(d):
        items = list(d.items())
        if rng.random() < 0.5:
            rng.shuffle(items)
        return dict(items)

    if nb >= 2:
        # the parameter dictionaries need not list the blocs / slates in the same order
        cohesion = reorder({b: reorder(row) for b, row in cohesion.items()})
        intervals = reorder({b: reorder(d) for b, d in intervals.items()})
        if model != "CambridgeSampler":
            slates = reorder(slates)
            props = reorder(props)
    case = {"slates": slates, "props": props, "cohesion": cohesion, "intervals": intervals}
    n = sum(sizes)
    if model == "short_name_PlackettLuce":
        case["ballot_length"] = rng.randint(1, n)
    if model == "name_Cumulative":
        case["num_votes"] = rng.randint(1, 4)
    return case


def generate(run_seed, tier):
    rng = stream(run_seed, "gen")
    kind = wchoice(rng, [("F", 60), ("K", 25), ("S", 40)])  # S cases cost one generator call each
    seed = derive(run_seed, "stream") % 10**9
    if kind == "F":
        model = rng.choice(FREQ_MODELS)
        if model == "ImpartialCulture":
            n = rng.randint(2, 4) if rng.random() < 0.85 else 10  # 10 candidates: 10! rankings, judged on marginals
            return {"kind": "F", "model": model, "gen": model, "candidates": ["c%d" % i for i in range(n)], "N": N1[tier], "n1": N1[tier], "by_bloc": False, "seed": seed}
        case = gen_params(rng, model)
        case.update(kind="F", model=model, gen=model, N=N1[tier], n1=N1[tier], by_bloc=True, seed=seed)
        case["decoy"] = rng.random() < 0.4  # a second live generator (same names, other numbers) is built before sampling
        if model == "CambridgeSampler" and rng.random() < 0.5:
            wc = list(case["slates"])
            rng.shuffle(wc)
            case["wc"] = wc  # explicit W / C roles, in either assignment
        return case
    if kind == "K":
        model = rng.choice(["name_BradleyTerry_MCMC", "slate_BradleyTerry_MCMC"])
        case = gen_params(rng, "slate_BradleyTerry" if model.startswith("slate") else "name_BradleyTerry")
        if model.startswith("name"):
            # <= 4 candidates in all: 24 states x 3 proposals x ~42 scripted steps per kernel
            while sum(len(v) for v in case["slates"].values()) > 4:
                b = max(case["slates"], key=lambda x: len(case["slates"][x]))
                c = case["slates"][b][-1]
                case["slates"][b] = case["slates"][b][:-1]
                for vb in case["intervals"]:
                    case["intervals"][vb][b].pop(c, None)
        # kernel extraction needs every support positive
        for b in case["intervals"]:
            for s in case["intervals"][b]:
                for k, v in case["intervals"][b][s].items():
                    if v == 0:
                        case["intervals"][b][s][k] = 1
        case.update(kind="K", model=model, gen=model, N=1, by_bloc=False, seed=seed)
        case["decoy"] = rng.random() < 0.4
        return case
    model = rng.choice(["OneDimSpatial", "Spatial", "ClusteredSpatial"])
    n = rng.randint(2, 6)
    cands = ["c%d" % i for i in range(n)]
    case = {"kind": "S", "model": model, "gen": model, "candidates": cands, "N": rng.choice([1, 5, 40, 200]), "by_bloc": False, "seed": seed,
            "defaults": rng.random() < 0.3, "dim": rng.randint(1, 3)}
    if not case["defaults"] and model != "OneDimSpatial":
        # user-supplied distance functions, one of them asymmetric: the documented argument order is distance(voter, candidate)
        case["distance"] = rng.choice([None, None, "l1", "directional", "directional"])
        # map-like coordinates: far from the origin relative to their spread (any shortcut through |v|^2 - 2v.c + |c|^2 cancels)
        case["offset"] = rng.choice([0.0, 1e3, 1e6, 1e8, 1e8])
        # candidates on a coarse grid: co-located candidates are exactly equidistant from every voter (either order is legal,
        # leaving one of them off the ballot is not)
        case["grid"] = rng.random() < 0.25
    if model == "ClusteredSpatial":
        per = [rng.randint(0, 30) for _ in cands]
        if sum(per) == 0:
            per[0] = 3
        case["per_candidate"] = dict(zip(cands, per))
        case["N"] = sum(per)
    return case


def shrink_steps(case):
    return iter(())


# ------------------------------------------------------------------------------------------ F
def cells_and_law(case, bloc, profile):
    """-> list of (label, counts dict, n, law dict) tests for one voter bloc"""
    model = case["model"]
    tests = []
    if model == "ImpartialCulture":
        n_c = len(case["candidates"])
        if n_c > 6:
            # too many rankings to enumerate: the (first, second) marginal is uniform over ordered pairs
            counts = {}
            for b in profile.ballots:
                r = tuple(next(iter(s)) for s in b.ranking)
                counts[r[:2]] = counts.get(r[:2], 0) + int(b.weight)
            pairs = list(it.permutations(case["candidates"], 2))
            return [("IC-first-two", counts, sum(counts.values()), {p: 1.0 / len(pairs) for p in pairs})]
        counts = {}
        for b in profile.ballots:
            k = tuple(next(iter(s)) for s in b.ranking)
            counts[k] = counts.get(k, 0) + int(b.weight)
        perms = list(it.permutations(case["candidates"]))
        return [("IC", counts, sum(counts.values()), {p: 1.0 / len(perms) for p in perms})]
    blocs = list(case["slates"])
    if model in ("name_PlackettLuce", "short_name_PlackettLuce", "name_BradleyTerry", "name_Cumulative"):
        w = GP.combined_interval(case, bloc)
        nz = [c for c in w if w[c] > 0]
        counts = {}
        if model == "name_Cumulative":
            for b in profile.ballots:
                k = tuple(sorted((c, int(v)) for c, v in b.scores.items()))
                counts[k] = counts.get(k, 0) + int(b.weight)
            law = L.multinomial_law(w, case["num_votes"])
        else:
            for b in profile.ballots:
                k = tuple(next(iter(s)) for s in b.ranking if len(s) == 1 and next(iter(s)) in nz)
                counts[k] = counts.get(k, 0) + int(b.weight)
            if model == "name_BradleyTerry":
                law = L.bt_law(w)
            elif model == "short_name_PlackettLuce":
                law = L.pl_prefix_law(w, min(case["ballot_length"], len(nz)))
            else:
                law = L.pl_law(w)
        return [(f"{model}[{bloc}]", counts, sum(counts.values()), law)]
    if model in ("slate_PlackettLuce", "slate_BradleyTerry"):
        iv = case["intervals"][bloc]
        sizes = {s: sum(1 for v in iv[s].values() if v > 0) for s in blocs}
        orders = {s: L.pl_law(iv[s]) for s in blocs}
        if model == "slate_PlackettLuce":
            tl = L.slate_pl_type_law(sizes, case["cohesion"][bloc])
        else:
            opp = [x for x in blocs if x != bloc][0]
            tl = L.slate_bt_type_law(bloc, opp, sizes[bloc], sizes[opp], case["cohesion"][bloc][bloc])
        law = L.compose_slate_law(tl, orders)
        zeros = {c for s in blocs for c, v in iv[s].items() if v == 0}
        counts = {}
        for b in profile.ballots:
            k = tuple(next(iter(s)) for s in b.ranking if len(s) == 1 and next(iter(s)) not in zeros)
            counts[k] = counts.get(k, 0) + int(b.weight)
        return [(f"{model}[{bloc}]", counts, sum(counts.values()), law)]
    if model == "AlternatingCrossover":
        opp = [x for x in blocs if x != bloc][0]
        own_set = set(case["slates"][bloc])
        iv = case["intervals"][bloc]
        c_bloc, c_cross = {}, {}
        for b in profile.ballots:
            r = tuple(next(iter(s)) for s in b.ranking)
            if r[0] in own_set:
                c_bloc[r] = c_bloc.get(r, 0) + int(b.weight)
            else:
                c_cross[r] = c_cross.get(r, 0) + int(b.weight)
        law_bloc = {}
        for o1, p1 in L.pl_law(iv[bloc]).items():
            for o2, p2 in L.pl_law(iv[opp]).items():
                law_bloc[o1 + o2] = p1 * p2
        k = min(len(case["slates"][bloc]), len(case["slates"][opp]))
        law_cross = {}
        for o1, p1 in L.pl_prefix_law(iv[opp], k).items():
            for o2, p2 in L.pl_prefix_law(iv[bloc], k).items():
                r = tuple(x for pair in zip(o1, o2) for x in pair)
                law_cross[r] = law_cross.get(r, 0.0) + p1 * p2
        if c_bloc:
            tests.append((f"AC-bloc-first[{bloc}]", c_bloc, sum(c_bloc.values()), law_bloc))
        if c_cross:
            tests.append((f"AC-crossover[{bloc}]", c_cross, sum(c_cross.values()), law_cross))
        return tests
    if model == "CambridgeSampler":
        iv = case["intervals"][bloc]
        for s in blocs:
            sset = set(case["slates"][s])
            by_k = {}
            for b in profile.ballots:
                sub = tuple(next(iter(x)) for x in b.ranking if next(iter(x)) in sset)
                by_k.setdefault(len(sub), {})
                by_k[len(sub)][sub] = by_k[len(sub)].get(sub, 0) + int(b.weight)
            for k, counts in by_k.items():
                nzs = sum(1 for v in iv[s].values() if v > 0)
                if 1 <= k <= nzs:
                    tests.append((f"Cambridge[{bloc}] slate {s} first {k}", counts, sum(counts.values()), L.pl_prefix_law(iv[s], k)))
        return tests
    raise ValueError(model)


def sample_profile(case, seed, n):
    seams.uninstall()
    seams.seed_real_streams(seed)
    c = dict(case, N=n)
    with seams.quiet():
        out = GP.build(c)()
    if isinstance(out, tuple):
        return out
    return None, out


def run_tests(case, seed, n):
    by, prof = sample_profile(case, seed, n)
    tests = []
    if by is None:
        tests += cells_and_law(case, None, prof)
    else:
        for b in by:
            if by[b].ballots:
                tests += cells_and_law(case, b, by[b])
    return tests


def execute_freq(case, trace):
    violations, probes = [], {}
    seed = case["seed"]
    n1 = case["n1"]
    try:
        tests = run_tests(case, derive(seed, "stage1"), n1)
    except seams.WallAlarm:
        raise
    except Exception as ex:
        # construction/generation failures are C14's business
        return {"violations": [], "probes": {"left_to_C14:" + type(ex).__name__: 1}, "faults": {}, "policies": {"seeded(genuine generators)": 1},
                "trace": f"F|{case['model']}|raised", "nontrivial": False, "rounds": 0, "draws": 0, "digest": digest(type(ex).__name__), "summary": {"raised": repr(ex)[:200]}}
    flagged = []
    ncells = 0
    worst = 1.0
    for label, counts, n, law in tests:
        ncells += len(law)
        for cell, k, p, pv in stats.screen(counts, n, law):
            flagged.append((label, cell, k, n, p, pv))
        for cell, p in law.items():
            worst = min(worst, stats.two_sided_p(counts.get(cell, 0), n, p))
    probes["cells_tested"] = ncells
    probes["cells_screened"] = len(flagged)
    confirmed = []
    if flagged:
        n2 = 10 * n1
        tests2 = {label: (counts, n, law) for label, counts, n, law in run_tests(case, derive(seed, "stage2"), n2)}
        for label, cell, k, n, p, pv in flagged:
            if label not in tests2:
                continue
            counts2, nn, law2 = tests2[label]
            k2 = counts2.get(cell, 0)
            p2 = law2.get(cell, 0.0)
            pv2 = stats.two_sided_p(k2, nn, p2) if p2 > 0 else (0.0 if k2 > 0 else 1.0)
            if pv2 < stats.CONFIRM_P:
                confirmed.append((label, cell, k2, nn, p2, pv2))
    for label, cell, k2, nn, p2, pv2 in confirmed[:1]:
        violations.append({
            "clause": "frequency",
            "message": f"{case['model']}: {label}: cell {cell} observed {k2}/{nn} = {k2 / nn:.4f}, law {p2:.4f} (exact binomial p = {pv2:.2e}, confirmed on a fresh stream); "
                       f"{len(confirmed)} cells confirmed in all; parameters cohesion={case.get('cohesion')} intervals={case.get('intervals')}",
            "sig": {"kind": "F", "model": case["model"], "clause": "frequency"},
        })
    pat = pattern(case)
    res = {"violations": violations, "probes": probes, "faults": {"genuine_generator_ballots": n1 + (10 * n1 if flagged else 0)},
           "policies": {"seeded(genuine generators)": 1}, "trace": f"F|{case['model']}|{pat}", "nontrivial": ncells >= 6, "rounds": 1, "draws": 0,
           "digest": digest([[label, sorted((str(c), v) for c, v in counts.items())] for label, counts, n, law in tests]),
           "summary": {"model": case["model"], "cells": ncells, "smallest_cell_p_value": worst, "screened": len(flagged), "confirmed": len(confirmed)}}
    if trace:
        res["log"] = [{"tests": [[label, n, {str(c): [counts.get(c, 0), round(p, 5)] for c, p in sorted(law.items(), key=lambda kv: -kv[1])[:12]}] for label, counts, n, law in tests]}]
    return res


def pattern(case):
    if "slates" not in case:
        return f"n{len(case.get('candidates', []))}"
    coh = tuple(sorted("lo" if case["cohesion"][b][b] < 0.5 else "hi" if case["cohesion"][b][b] > 0.5 else "eq" for b in case["slates"]))
    z = sum(1 for d in case["intervals"].values() for iv in d.values() for v in iv.values() if v == 0)
    return f"{sorted(len(v) for v in case['slates'].values())}|{coh}|z{z}|{case.get('ballot_length')}|{case.get('num_votes')}"


# ------------------------------------------------------------------------------------------ K
def bisect_acceptance(step, lo=0.0, hi=1.0, iters=40):
    """largest u for which the scripted step accepts, located by bisection; step(u) -> True if accepted.
    The measured uniforms stay strictly inside (0,1)."""
    eps = 2.0 ** -52
    if not step(eps):
        return 0.0
    if step(1.0 - eps):
        return 1.0
    a, b = eps, 1.0 - eps
    for _ in range(iters):
        m = (a + b) / 2
        if step(m):
            a = m
        else:
            b = m
    return (a + b) / 2


def kernel_name_bt(case, bloc, g):
    """transition matrix of one _BT_mcmc step on the rankings of the bloc's supported candidates"""
    from votekit import Ballot
    import votekit.ballot_generator as bg

    pi_iv = g.pref_interval_by_bloc[bloc]
    iv = dict(pi_iv.interval)
    cands = sorted(pi_iv.non_zero_cands)
    n = len(cands)
    states = list(it.permutations(cands))
    idx = {s: i for i, s in enumerate(states)}
    K = np.zeros((len(states), len(states)))
    pops = set()
    with seams.scheduled({"kind": "scripted", "decisions": [], "strict": True}, generators=True) as seam, seams.quiet():
        for s in states:
            seed_ballot = Ballot(ranking=tuple(frozenset({c}) for c in s))
            for j in range(n - 1):
                def step(u, s=s, j=j, seed_ballot=seed_ballot):
                    seam._script, seam._spos = [{"idx": [j]}, {"u": u}], 0
                    del seam.log[:]
                    pp = g._BT_mcmc(1, iv, seed_ballot, zero_cands=frozenset())
                    for e in seam.log:
                        if e["kind"] == "choices":
                            pops.add((tuple(e["pop"]), tuple(e["weights"])))
                    if seam._spos != 2:
                        raise AssertionError(f"one chain step consumed {seam._spos} scripted draws, expected 2")
                    r = tuple(next(iter(x)) for x in pp.ballots[0].ranking)
                    step.last = r
                    return r != s

                a = bisect_acceptance(step)
                t = list(s)
                t[j], t[j + 1] = t[j + 1], t[j]
                step(2.0 ** -52)
                if a > 0 and step.last != tuple(t):
                    raise AssertionError(f"accepted move from {s} via {j} leads to {step.last}")
                K[idx[s], idx[tuple(t)]] += a / (n - 1)
                K[idx[s], idx[s]] += (1 - a) / (n - 1)
    return states, K, pops, L.bt_law({c: iv[c] for c in cands}), n


def kernel_slate_bt(case, bloc, g):
    blocs = list(case["slates"])
    opp = [x for x in blocs if x != bloc][0]
    iv = case["intervals"][bloc]
    n_own = sum(1 for v in iv[bloc].values() if v > 0)
    n_opp = sum(1 for v in iv[opp].values() if v > 0)
    # the chain starts from the generator's own seed type: slates in the order of g.blocs (= key order of bloc_voter_prop)
    seed_type = tuple([b for b in g.blocs for _ in range(n_own if b == bloc else n_opp)])
    states = sorted(set(it.permutations(seed_type)))
    idx = {s: i for i, s in enumerate(states)}
    n = len(seed_type)
    K = np.zeros((len(states), len(states)))
    pops = set()

    def path_to(target):
        cur = list(seed_type)
        moves = []
        for i in range(n):
            if cur[i] != target[i]:
                j = next(k for k in range(i + 1, n) if cur[k] == target[i])
                for k in range(j, i, -1):
                    cur[k - 1], cur[k] = cur[k], cur[k - 1]
                    moves.append(k - 1)
        assert tuple(cur) == tuple(target)
        return moves

    with seams.scheduled({"kind": "scripted", "decisions": [], "strict": True}, generators=True) as seam, seams.quiet():
        for s in states:
            moves = path_to(s)
            for j in range(n - 1):
                def step(u, s=s, j=j, moves=moves):
                    dec = [{"idx": [m]} for m in moves] + [{"idx": [j]}] + [{"u": 0.0}] * len(moves) + [{"u": u}]
                    seam._script, seam._spos = dec, 0
                    del seam.log[:]
                    out = g._sample_ballot_types_MCMC(bloc, len(moves) + 1)
                    for e in seam.log:
                        if e["kind"] == "np.choice":
                            pops.add((tuple(e["pop"]), tuple(round(x, 12) for x in e["p"])))
                    if seam._spos != len(dec):
                        raise AssertionError(f"{len(moves) + 1} chain steps consumed {seam._spos} scripted draws, expected {len(dec)}")
                    before = tuple(out[-2]) if len(out) >= 2 else tuple(seed_type)
                    if before != s:
                        raise AssertionError(f"positioning failed: reached {before}, wanted {s}")
                    step.last = tuple(out[-1])
                    return step.last != s

                if s[j] == s[j + 1]:
                    # swapping equal slates never changes the state
                    K[idx[s], idx[s]] += 1.0 / (n - 1)
                    continue
                a = bisect_acceptance(step)
                t = list(s)
                t[j], t[j + 1] = t[j + 1], t[j]
                K[idx[s], idx[tuple(t)]] += a / (n - 1)
                K[idx[s], idx[s]] += (1 - a) / (n - 1)
    return states, K, pops, L.slate_bt_type_law(bloc, opp, n_own, n_opp, case["cohesion"][bloc][bloc]), n


def execute_kernel(case, trace):
    violations, probes, faults = [], {}, {}
    model = case["model"]
    seams.uninstall()
    seams.seed_real_streams(case["seed"])
    with seams.quiet():
        import votekit.ballot_generator as bg
        from votekit.pref_interval import PreferenceInterval

        kw = dict(slate_to_candidates={b: list(v) for b, v in case["slates"].items()}, bloc_voter_prop=dict(case["props"]),
                  cohesion_parameters={b: dict(v) for b, v in case["cohesion"].items()},
                  pref_intervals_by_bloc={b: {s: PreferenceInterval(dict(iv)) for s, iv in d.items()} for b, d in case["intervals"].items()})
        g = bg.name_BradleyTerry(**kw) if model.startswith("name") else bg.slate_BradleyTerry(**kw)
        if case.get("decoy"):
            # a second live generator with the same names and other parameters must not disturb the first one's chain
            try:
                keep = GP._build(GP.decoy_case(dict(case, gen=model, N=1, by_bloc=False)))
            except Exception:
                keep = None
    worst = 0.0
    nstates = 0
    steps = 0
    detail = []
    for bloc in case["slates"]:
        try:
            if model.startswith("name"):
                states, K, pops, law, n = kernel_name_bt(case, bloc, g)
            else:
                states, K, pops, law, n = kernel_slate_bt(case, bloc, g)
        except seams.WallAlarm:
            raise
        except (seams.ScriptExhausted, AssertionError) as ex:
            violations.append({"clause": "kernel-structure", "message": f"{model} bloc {bloc}: one chain step does not consume exactly one proposal draw and one acceptance uniform / does not move as proposed: {ex!r}",
                               "sig": {"kind": "K", "model": model, "clause": "kernel-structure"}})
            continue
        except Exception as ex:
            probes["left_to_C14:" + type(ex).__name__] = probes.get("left_to_C14:" + type(ex).__name__, 0) + 1
            continue
        if n < 2:
            continue
        nstates += len(states)
        steps += len(states) * (n - 1)
        pi = np.array([law.get(s, 0.0) for s in states])
        err = float(np.abs(pi @ K - pi).max())
        rows = float(np.abs(K.sum(axis=1) - 1).max())
        worst = max(worst, err)
        # proposal population must be all n-1 adjacent pairs, uniformly weighted
        for pop, wts in pops:
            if list(pop) != list(range(n - 1)) or len(set(wts)) > 1:
                violations.append({"clause": "proposal", "message": f"{model} bloc {bloc}: proposal drawn from {pop} with weights {wts}, expected uniform over {list(range(n - 1))}",
                                   "sig": {"kind": "K", "model": model, "clause": "proposal"}})
                break
        detail.append({"bloc": bloc, "states": len(states), "stationarity_error": err})
        if err > 1e-9 or rows > 1e-9:
            i = int(np.abs(pi @ K - pi).argmax())
            violations.append({
                "clause": "stationarity",
                "message": f"{model} bloc {bloc} (cohesion {case['cohesion'][bloc]}, intervals {case['intervals'][bloc]}): the extracted one-step kernel does not leave the documented law invariant: "
                           f"max |pi K - pi| = {err:.4g} at state {states[i]} (pi = {pi[i]:.4f}, (pi K) = {(pi @ K)[i]:.4f})",
                "sig": {"kind": "K", "model": model, "clause": "stationarity"},
            })
    faults["scripted_chain_steps"] = steps
    res = {"violations": violations, "probes": probes, "faults": faults, "policies": {"scripted": 1}, "trace": f"K|{model}|{pattern(case)}", "nontrivial": nstates > 1,
           "rounds": steps, "draws": steps * 2, "digest": digest([detail]), "summary": {"model": model, "kernels": detail}}
    if trace:
        res["log"] = [{"kernels": detail}]
    return res


# ------------------------------------------------------------------------------------------ S
class _RecNpRandom:
    def __init__(self, rec):
        self._rec = rec

    def normal(self, *a, **k):
        v = np.random.normal(*a, **k)
        self._rec.append((a, k, v))
        return v

    def __getattr__(self, name):
        return getattr(np.random, name)


class _RecNp:
    def __init__(self, rec):
        self.random = _RecNpRandom(rec)

    def __getattr__(self, name):
        return getattr(np, name)


def execute_spatial(case, trace):
    import votekit.ballot_generator as bg

    violations, probes = [], {}
    model = case["model"]
    seams.uninstall()
    seams.seed_real_streams(case["seed"])
    rec = []
    cpos = vpos = None
    try:
        with seams.quiet():
            if model == "OneDimSpatial":
                saved = bg.np
                bg.np = _RecNp(rec)
                try:
                    prof = GP.build(case)()
                finally:
                    bg.np = saved
                scal = [v for a, k, v in rec if np.ndim(v) == 0]
                arrs = [v for a, k, v in rec if np.ndim(v) == 1]
                if len(scal) == len(case["candidates"]) and len(arrs) == 1 and len(arrs[0]) == case["N"]:
                    cpos = {c: np.array([float(x)]) for c, x in zip(case["candidates"], scal)}
                    vpos = np.array(arrs[0]).reshape(-1, 1)
            else:
                prof, cpos, vpos = GP.build(case)()
                cpos = {c: np.atleast_1d(np.array(v, dtype=float)) for c, v in cpos.items()}
                vpos = np.array(vpos, dtype=float).reshape(len(vpos), -1)
    except seams.WallAlarm:
        raise
    except Exception as ex:
        return {"violations": [], "probes": {"left_to_C14:" + type(ex).__name__: 1}, "faults": {}, "policies": {"seeded(genuine generators)": 1},
                "trace": f"S|{model}|raised", "nontrivial": False, "rounds": 0, "draws": 0, "digest": digest(type(ex).__name__), "summary": {"raised": repr(ex)[:200]}}
    if cpos is None:
        probes["positions_not_observable"] = 1
    else:
        exp = {}
        skipped = 0
        for v in vpos:
            dist = GP.DISTANCES.get(case.get("distance")) or (lambda a, b: float(np.linalg.norm(a - b)))
            d = {c: dist(v, p) for c, p in cpos.items()}
            ds = sorted(d.values())
            if any(b - a <= 1e-9 * max(1.0, abs(b)) for a, b in zip(ds, ds[1:])):
                # two candidates (nearly) equidistant: either order is a legal reading of "increasing distance"
                skipped += 1
                continue
            r = tuple(sorted(d, key=d.__getitem__))
            exp[r] = exp.get(r, 0) + 1
        got = {}
        for b in prof.ballots:
            r = tuple(next(iter(s)) for s in b.ranking)
            got[r] = got.get(r, 0) + int(b.weight)
        probes["voters_checked"] = len(vpos) - skipped
        short = [r for r in got if sorted(r) != sorted(cpos)]
        if short:
            violations.append({"clause": "complete-ranking", "message": f"{model}: ballot {short[0]} does not rank each of the candidates {sorted(cpos)} exactly once "
                                                                      f"({skipped} voters have equidistant candidates; a tie may be broken either way but not dropped)",
                               "sig": {"kind": "S", "model": model, "clause": "complete-ranking"}})
        if (got != exp) if skipped == 0 else any(got.get(r, 0) < k for r, k in exp.items()):
            diff = [r for r in set(got) | set(exp) if got.get(r, 0) != exp.get(r, 0)][:3]
            violations.append({"clause": "distance-order", "message": f"{model}: ballots are not the candidates sorted by increasing distance from the sampled voter positions; e.g. {[(r, got.get(r, 0), exp.get(r, 0)) for r in diff]} (ranking, profile weight, expected)",
                               "sig": {"kind": "S", "model": model, "clause": "distance-order"}})
        if len(vpos) != case["N"]:
            violations.append({"clause": "positions", "message": f"{model}: {len(vpos)} voter positions for {case['N']} ballots", "sig": {"kind": "S", "model": model, "clause": "positions"}})
    res = {"violations": violations, "probes": probes, "faults": {}, "policies": {"seeded(genuine generators)": 1},
           "trace": f"S|{model}|{len(case['candidates'])}|{case['N'] if case['N'] < 6 else 'many'}|{case.get('defaults')}|{case.get('dim')}", "nontrivial": True,
           "rounds": 1, "draws": 0, "digest": digest(canon.cpmap(prof)), "summary": {"model": model, "N": case["N"]}}
    if trace:
        res["log"] = [{"profile": canon.cpmap(prof)}]
    return res


def execute(case, trace=False):
    if case["kind"] == "F":
        return execute_freq(case, trace)
    if case["kind"] == "K":
        return execute_kernel(case, trace)
    return execute_spatial(case, trace)
