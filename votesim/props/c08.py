"""C08 -- outcomes are neutral, anonymous and independent of representation and hash seed.

Nondeterminism under test: the string-hash seed (iteration order of every set/frozenset the code
builds) -- the same run seeds are executed in fresh interpreters under several PYTHONHASHSEED values and
the per-run digests of canonical outcomes are compared by the driver -- plus in-process representation
changes (candidate bijection, ballot permutation, splitting, merging, candidate-tuple permutation).
The random seam runs in *trap* mode: any non-trivial draw marks the comparison 'random path' (exempt).
"""
from fractions import Fraction

from ..core import canon, seams
from ..core.seeds import stream, digest, derive
from ..gen import profiles as G
from . import common

ID = "C08"
RUNS = {"quick": 1500, "thorough": 100000}
TIME = {"quick": 150, "thorough": 1500}
WALL = 240.0
HASHSEEDS = {"quick": [0, 1, 2, 31337], "thorough": [0, 1, 2, 3, 7, 1234, 31337, 4294967295]}
RULES = ("STV", "STV", "IRV", "SequentialRCV", "Plurality", "SNTV", "Borda", "TopTwo", "Alaska", "DominatingSets", "CondoBorda",
         "GeneralRating", "Rating", "Limited", "Cumulative", "Approval", "BlocPlurality")
RULE_TEXT = (
    "case = seeded (profile, deterministic rule + configuration, plus the scoring/pairwise utilities) executed as baseline and 5-6 variants (rename by a "
    "bijection into names with a different sort/hash order, ballot permutation, rational ballot splitting, merging, candidate-tuple permutation, a "
    "composition); the same run seeds run under every listed PYTHONHASHSEED in fresh interpreters and the baseline digests are compared. non-trivial = "
    ">=2 distinct ballots and >=2 candidates and at least one compared (non-random-path) variant; distinct = distinct (rule, config, rounds, exempt flags, profile shape) signature"
)
ASSUMPTIONS = [
    "comparison is on canonical values: groups as sorted lists, scores as exact strings, profiles never by ballot order; order inside a reported tied group is free",
    "a variant or baseline whose run met a non-trivial draw at the seam AND records a tiebreak in some round (or uses the random transfer) is a 'random path' and exempt (counted), as the statement scopes; draws without any recorded tiebreak stay in scope",
]
case_size = common.case_size

# rename targets: sort order, length and hash order all differ from A..F, and some names contain others (Jo/Joan, x1/x10)
TARGET_NAMES = ["Joan", "Y", "x10", "x1", "Jo", "alpha", "_m", "Beta", "zeta"]


def generate_big_pairwise(rng):
    """8 candidates, one bullet vote (7 candidates unranked) and a close head-to-head contest: the pairwise rules must not
    depend on the listing order of the candidates the short ballot leaves unranked"""
    names = list(G.NAME_FAMILIES["plain"][:8])
    a, b = rng.sample(names, 2)
    rest = [c for c in names if c not in (a, b)]
    rng.shuffle(rest)
    w = rng.randint(5, 12)
    ballots = [
        {"r": [[a], [b]] + [[c] for c in rest], "w": str(w)},
        {"r": [[b], [a]] + [[c] for c in rest], "w": str(w + 1)},
        {"r": [[rng.choice(rest)]], "w": str(rng.randint(3, 9))},
    ]
    rule = rng.choice(["DominatingSets", "CondoBorda"])
    kw = {} if rule == "DominatingSets" else {"m": rng.randint(1, 3)}
    rng.shuffle(names)
    return {"rule": rule, "kw": kw, "profile": {"candidates": names, "ballots": ballots},
            "shape": {"n": 8, "nb": 3, "law": "big-pairwise", "names": "plain"}, "only_variants": ["permute-candidates", "rename"]}


def generate(run_seed, tier):
    rng = stream(run_seed, "gen")
    case = generate_big_pairwise(rng) if rng.random() < 0.004 else G.gen_rule_case(rng, rules=RULES, max_c=6, pairwise_ties=True, level=0.2)
    if "transfer" in case["kw"]:
        case["kw"]["transfer"] = "fractional"
    n = len(case["profile"]["candidates"])
    tgt = list(TARGET_NAMES[:n])
    rng.shuffle(tgt)
    nb = len(case["profile"]["ballots"])
    perm = list(range(nb))
    rng.shuffle(perm)
    cperm = list(range(n))
    rng.shuffle(cperm)
    splits = []
    for i in range(nb):
        if rng.random() < 0.5:
            k = rng.choice([2, 3])
            parts = [rng.randint(1, 4) for _ in range(k)]
            if rng.random() < 0.25:
                # pieces whose weights need denominators above 10^6: any per-ballot rounding shows as split != merged
                parts = rng.sample([1000003, 999983, 1000033, 999979], k)
            splits.append([i, parts])
    case["variant"] = {"names": tgt, "perm": perm, "cperm": cperm, "splits": splits}
    case["policies"] = [{"kind": "asc"}]
    return case


def shrink_steps(case):
    for c in G.shrink_rule_case_steps(case):
        # keep the variant spec consistent with the smaller profile
        n = len(c["profile"]["candidates"])
        nb = len(c["profile"]["ballots"])
        v = case["variant"]
        c["variant"] = {"names": v["names"][:n] if len(v["names"]) >= n else TARGET_NAMES[:n], "perm": list(range(nb))[::-1], "cperm": list(range(n))[::-1],
                        "splits": [s for s in v["splits"] if s[0] < nb]}
        yield c
    v = case["variant"]
    for i in range(len(v["splits"])):
        yield dict(case, variant=dict(v, splits=v["splits"][:i] + v["splits"][i + 1 :]))


# ------------------------------------------------------------------------------------ variants
def v_rename(jp, names):
    mp = {c: names[i] for i, c in enumerate(jp["candidates"])}
    bs = []
    for b in jp["ballots"]:
        nb = dict(b)
        if b.get("r") is not None:
            nb["r"] = [[mp[x] for x in g] for g in b["r"]]
        if b.get("s"):
            nb["s"] = {mp[k]: v for k, v in b["s"].items()}
        bs.append(nb)
    return {"candidates": [mp[c] for c in jp["candidates"]], "ballots": bs}, mp


def v_permute(jp, perm):
    bs = jp["ballots"]
    perm = [i for i in perm if i < len(bs)] + [i for i in range(len(bs)) if i not in perm]
    return {"candidates": jp["candidates"], "ballots": [bs[i] for i in perm]}


def v_cperm(jp, cperm):
    cs = jp["candidates"]
    cperm = [i for i in cperm if i < len(cs)] + [i for i in range(len(cs)) if i not in cperm]
    return {"candidates": [cs[i] for i in cperm], "ballots": jp["ballots"]}


def v_split(jp, splits):
    sp = {i: parts for i, parts in splits}
    bs = []
    for i, b in enumerate(jp["ballots"]):
        if i in sp:
            w = Fraction(b["w"])
            tot = sum(sp[i])
            for part in sp[i]:
                bs.append(dict(b, w=canon.fs(w * Fraction(part, tot))))
        else:
            bs.append(b)
    return {"candidates": jp["candidates"], "ballots": bs}


def v_merge(jp):
    acc = {}
    order = []
    for b in jp["ballots"]:
        k = (repr(b.get("r")), repr(sorted((b.get("s") or {}).items())))
        if k not in acc:
            acc[k] = dict(b)
            order.append(k)
        else:
            acc[k]["w"] = canon.fs(Fraction(acc[k]["w"]) + Fraction(b["w"]))
    return {"candidates": jp["candidates"], "ballots": [acc[k] for k in order]}


def rename_states(st, inv):
    def g(groups):
        return [sorted(inv[c] for c in grp) for grp in groups]

    out = []
    for s in st:
        out.append({
            "round": s["round"], "elected": g(s["elected"]), "eliminated": g(s["eliminated"]), "remaining": g(s["remaining"]),
            "scores": {inv[c]: v for c, v in sorted(s["scores"].items())},
            "tiebreaks": sorted([[sorted(inv[c] for c in k), [sorted(inv[c] for c in x) for x in v]] for k, v in s["tiebreaks"]]),
        })
    return [dict(s, scores=dict(sorted(s["scores"].items()))) for s in out]


def utilities(jp):
    """scoring and pairwise utilities on the profile -> canonical dict (or exception names)"""
    from votekit import utils as U
    from votekit.graphs import PairwiseComparisonGraph

    p = canon.build_profile(jp)
    out = {}
    ranked = all(b.get("r") is not None for b in jp["ballots"])
    if ranked:
        for name, fn in (("first_place_votes", U.first_place_votes), ("borda_scores", U.borda_scores), ("mentions", U.mentions)):
            try:
                out[name] = canon.cscores(fn(p))
            except Exception as ex:
                out[name] = "raised " + type(ex).__name__
        n = len(jp["candidates"])
        try:
            out["positional"] = canon.cscores(U.score_profile_from_rankings(p, [Fraction(3), Fraction(3, 2), 1][: max(1, n)]))
        except Exception as ex:
            out["positional"] = "raised " + type(ex).__name__
        untied = all(len(g) == 1 for b in jp["ballots"] for g in b["r"])
        if untied:
            try:
                g = PairwiseComparisonGraph(p)
                out["pairwise"] = sorted([[a, b, canon.fs(v)] for (a, b), v in g.pairwise_dict.items()])
                out["tiers"] = [sorted(t) for t in g.dominating_tiers()]
            except Exception as ex:
                out["pairwise"] = "raised " + type(ex).__name__
    else:
        try:
            out["ballot_scores"] = canon.cscores(U.score_profile_from_ballot_scores(p))
        except Exception as ex:
            out["ballot_scores"] = "raised " + type(ex).__name__
    return out


def rename_util(u, inv):
    out = {}
    for k, v in u.items():
        if isinstance(v, str):
            out[k] = v
        elif k == "pairwise":
            out[k] = sorted([[inv[a], inv[b], w] for a, b, w in v])
        elif k == "tiers":
            out[k] = [sorted(inv[c] for c in t) for t in v]
        else:
            out[k] = dict(sorted((inv[c], w) for c, w in v.items()))
    return out


def run_variant(case, jp):
    o = common.run_rule(dict(case, profile=jp), case["policies"][0], log_populations=False)
    st = canon.cstates(o.election) if o.election is not None else None
    ex = type(o.exc).__name__ if o.exc is not None else None
    with seams.quiet():
        try:
            ut = utilities(jp)
        except Exception as x:  # building the profile itself failed
            ut = {"profile": "raised " + type(x).__name__}
    return st, ex, o.seam.nontrivial, ut


def execute(case, trace=False):
    kw, rule, jp = case["kw"], case["rule"], case["profile"]
    v = case["variant"]
    violations, probes, faults = [], {}, {}

    def bump(d, k, n=1):
        if n:
            d[k] = d.get(k, 0) + n

    def viol(clause, msg, variant):
        violations.append({"clause": clause, "message": f"{rule} {kw}: variant '{variant}': {msg}", "sig": {"rule": rule, "clause": clause, "variant": variant}})

    base_st, base_ex, base_nt, base_ut = run_variant(case, jp)
    ident = {c: c for c in jp["candidates"]}
    names = v["names"] if len(v["names"]) == len(jp["candidates"]) else TARGET_NAMES[: len(jp["candidates"])]
    ren, mp = v_rename(jp, names)
    inv = {b: a for a, b in mp.items()}
    split = v_split(jp, v["splits"])
    variants = [
        ("rename", ren, inv),
        ("permute-ballots", v_permute(jp, v["perm"]), ident),
        ("split-ballots", split, ident),
        ("merge-ballots", v_merge(v_permute(split, v["perm"] + list(range(len(jp["ballots"]), len(split["ballots"]))))), ident),
        ("permute-candidates", v_cperm(jp, v["cperm"]), ident),
        ("composition", v_cperm(v_permute(v_split(ren, v["splits"]), v["perm"][::-1]), v["cperm"]), inv),
    ]
    if case.get("only_variants"):
        variants = [x for x in variants if x[0] in case["only_variants"]]
    compared = 0
    rounds = len(base_st) - 1 if base_st else 0
    flags = []
    for name, vjp, back in variants:
        st, ex, nt, ut = run_variant(case, vjp)
        bump(faults, "variant:" + name)
        rounds += len(st) - 1 if st else 0
        # utilities never draw: always compared
        if rename_util(ut, back) != base_ut:
            diff = [k for k in base_ut if rename_util(ut, back).get(k) != base_ut[k]]
            viol("utility", f"{diff[0] if diff else '?'}: {rename_util(ut, back).get(diff[0]) if diff else ut} vs baseline {base_ut.get(diff[0]) if diff else base_ut}", name)
        # the statement exempts runs in which a random tiebreak is RECORDED (and rules that are random by configuration, i.e. the
        # random transfer).  A run that drew at the seam but recorded no tiebreak in any round is still in scope: its outcome
        # must not depend on names, order or hash seed (the trap resolves draws in canonical name order, so it will if it does)
        unrecorded = (st is not None and base_st is not None and kw.get("transfer") != "random"
                      and not any(x.get("tiebreaks") for x in st) and not any(x.get("tiebreaks") for x in base_st))
        if (base_nt or nt) and unrecorded:
            bump(probes, "draws_without_recorded_tiebreak_compared")
        if (base_nt or nt) and not unrecorded:
            bump(probes, "random_path_exempt")
            flags.append("r")
            continue
        compared += 1
        flags.append("c")
        if ex != base_ex:
            viol("exception-kind", f"{'raised ' + ex if ex else 'returned'} but baseline {'raised ' + base_ex if base_ex else 'returned'}", name)
            continue
        if st is not None:
            back_st = rename_states(st, back)
            b0 = rename_states(base_st, ident)
            if back_st != b0:
                k = next((i for i in range(min(len(back_st), len(b0))) if back_st[i] != b0[i]), min(len(back_st), len(b0)))
                viol("rounds-differ", f"round {k}: {back_st[k] if k < len(back_st) else 'missing'} vs baseline {b0[k] if k < len(b0) else 'missing'}", name)
    bump(probes, "compared_variants", compared)
    bump(probes, "baseline_raised:" + base_ex if base_ex else "baseline_returned")
    nontrivial = compared > 0 and len(jp["ballots"]) >= 2 and len(jp["candidates"]) >= 2
    res = {
        "violations": violations, "probes": probes, "faults": faults, "policies": {"asc(trap)": 1 + len(variants)},
        "trace": f"{rule}|{sorted((k, str(x)) for k, x in kw.items())}|{len(base_st) - 1 if base_st else base_ex}|{flags}|{case['shape'].get('n')}|{case['shape'].get('nb')}|{case['shape'].get('law')}",
        "nontrivial": nontrivial, "rounds": rounds, "draws": base_nt,
        # the cross-interpreter digest: baseline outcome + utilities (canonical, so only a genuine hash-order dependence can move it)
        "digest": digest([base_st, base_ex, base_ut]),
        "summary": {"baseline_rounds": len(base_st) - 1 if base_st else None, "baseline_exception": base_ex, "variant_flags(c=compared,r=random path)": flags},
    }
    if trace:
        res["log"] = [{"baseline_states": base_st, "baseline_exception": base_ex, "utilities": base_ut}]
    return res


def hashseed_violation(seed, index, digests):
    """called by the driver when the same run gives different digests under different PYTHONHASHSEEDs"""
    run_seed = derive(seed, ID, index)
    case = generate(run_seed, "quick")
    return {
        "sig": {"rule": case["rule"], "clause": "hash-seed"},
        "replay": {
            "property": ID, "oracle_clause": "hash-seed", "run_seed": run_seed, "run_index": index, "case": case,
            "hashseed_compare": digests, "hashseed": sorted(digests)[0],
            "violation": {"sig": {"rule": case["rule"], "clause": "hash-seed"},
                          "message": f"{case['rule']} {case['kw']}: baseline outcome digest differs between PYTHONHASHSEED values {digests}"},
        },
    }
