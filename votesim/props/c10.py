"""C10 -- randomness only breaks genuine ties, and every tiebreak is recorded.

The core use of the scheduler: the same workload is executed under opposing schedules of every random
choice point (asc / desc / keyed / seeded).  (1) no recorded tiebreak => identical complete outcomes;
(2) two runs that differ must first differ in a round where both record a tiebreak on the same tied
set, resolved differently; (3) every recorded tiebreak is audited against exact reference tallies of
the recorded input profile; (4) every draw seen at the seam must belong to a recorded tiebreak of the
round in progress and range over exactly a group of candidates still tied on the tiebreak score.
"""
from fractions import Fraction

from ..core import canon, seams
from ..core.seeds import stream, digest
from ..gen import profiles as G
from ..ref import scores as RS
from . import common

ID = "C10"
RUNS = {"quick": 9000, "thorough": 500000}
TIME = {"quick": 150, "thorough": 1500}
RULES = ("STV", "STV", "IRV", "SequentialRCV", "Plurality", "SNTV", "Borda", "TopTwo", "Alaska", "Alaska", "CondoBorda", "CondoBorda",
         "DominatingSets", "GeneralRating", "Rating", "Limited", "Cumulative", "Approval", "BlocPlurality")
RULE_TEXT = (
    "case = seeded (profile, non-random rule, configuration, tiebreak in {None,random,borda,first_place}) executed under 4 opposing schedules "
    "of the random seam; outcomes compared pairwise round by round, every recorded tiebreak and every logged draw audited against exact "
    "reference tallies. non-trivial = some schedule recorded a tiebreak or made a non-trivial draw or the run has >=2 rounds; distinct = distinct "
    "(rule, config, per-schedule (rounds, tiebreak rounds, outcome)) signature"
)
ASSUMPTIONS = [
    "STV/Alaska use the fractional transfer here (random transfer is an intentionally random step, judged by C02/C03)",
    "a 'borda'/'first_place' order must be non-increasing in that score of the profile being counted in the round (STV elimination ties: first-place votes of the initial profile, as C02 states)",
    "runs that raise anything but ValueError are left to C01 and only their recorded prefix is compared",
]
case_size = common.case_size
shrink_steps = common.rule_case_steps


def gen_late_top_tie(rng):
    """one-by-one STV in which two candidates are lifted over the quota by the same surplus and are exactly tied in a LATER
    round, while other ballots make their Borda scores differ (and differ between the original and the round's profile)"""
    for _ in range(30):
        nf = rng.randint(1, 2)
        names = ["X", "A", "B"] + ["F%d" % i for i in range(nf)]
        w, k = rng.randint(3, 9), rng.randint(1, 8)
        bs = [([["X"], ["A"]] + ([[x] for x in rng.sample(names[3:], rng.randint(0, nf))]), w),
              ([["X"], ["B"]] + ([[x] for x in rng.sample(names[3:], rng.randint(0, nf))]), w),
              ([["A"]] + [[x] for x in rng.sample(["X"] + names[3:], rng.randint(0, nf + 1))], k),
              ([["B"]] + [[x] for x in rng.sample(["X"] + names[3:], rng.randint(0, nf + 1))], k)]
        for f in names[3:]:
            for _ in range(rng.randint(1, 2)):
                rest = rng.sample([c for c in names if c != f], rng.randint(1, len(names) - 1))
                bs.append(([[f]] + [[c] for c in rest], rng.randint(1, 3)))
        N = sum(x[1] for x in bs)
        m = 3
        q = N // (m + 1) + 1
        tX = 2 * w
        if tX < q:
            continue
        lifted = Fraction(w) * (tX - q) / tX + k
        fp_f = max([sum(x[1] for x in bs if x[0][0] == [f]) for f in names[3:]] + [0])
        if lifted < q or lifted <= fp_f or lifted >= tX:
            continue
        rng.shuffle(bs)
        cands = list(names)
        rng.shuffle(cands)
        return {"rule": "STV", "kw": {"m": 3, "quota": "droop", "simultaneous": False, "tiebreak": rng.choice(["borda", "first_place", "borda"]), "transfer": "fractional"},
                "profile": {"candidates": cands, "ballots": [{"r": r, "w": str(wt)} for r, wt in bs]},
                "shape": {"n": len(names), "nb": len(bs), "law": "late-top-tie", "names": "plain", "wfam": "small"}}
    return None


def gen_shared_first_place(rng):
    """Borda election whose boundary tie has to be broken by first-place votes while some ballot ties a tied candidate with an
    outsider in its first position (the shared first place counts 1/2 for each, not 1 for the tied candidate alone)."""
    for _ in range(300):
        n = rng.randint(3, 4)
        names = list(G.NAME_FAMILIES["plain"][:n])
        bs = []
        for _i in range(rng.randint(3, 4)):
            perm = rng.sample(names, n)
            r = [[c] for c in perm]
            if rng.random() < 0.5:
                r = [sorted(perm[:2])] + r[2:]
            bs.append({"r": r, "w": str(rng.randint(1, 5))})
        jp = {"candidates": names, "ballots": bs}
        m = rng.randint(1, n - 1)
        sc = RS.borda(jp)
        order = sorted(names, key=lambda c: -sc[c])
        if sc[order[m - 1]] != sc[order[m]]:
            continue
        T = {c for c in names if sc[c] == sc[order[m]]}
        f = RS.fpv(jp)
        if len({f[c] for c in T}) < 2:
            continue
        if not any(len(b["r"][0]) == 2 and len(set(b["r"][0]) & T) == 1 for b in bs):
            continue
        rng.shuffle(names)
        return {"rule": "Borda", "kw": {"m": m, "tiebreak": "first_place"}, "profile": {"candidates": names, "ballots": bs},
                "shape": {"n": n, "nb": len(bs), "law": "shared-first-place", "names": "plain", "wfam": "small"}}
    return None


def generate(run_seed, tier):
    rng = stream(run_seed, "gen")
    if rng.random() < 0.03:
        c = gen_shared_first_place(rng)
        if c is not None:
            c["policies"] = common.gen_policies(rng, run_seed)
            c["history"] = False
            return c
    if rng.random() < 0.04:
        c = gen_late_top_tie(rng)
        if c is not None:
            c["policies"] = common.gen_policies(rng, run_seed)
            c["history"] = False
            return c
    if rng.random() < 0.04:
        # a positional rule whose vector has plateaus ((1,1,0), (2,1,1,0), ...) ties candidates that the scored tiebreaks separate:
        # the tiebreak score ('borda' = the true Borda score, 'first_place') is then a different function from the deciding tally
        case = G.gen_rule_case(rng, rules=("Borda",), max_c=5, tie_bias=0.8, subulp=0)
        n = len(case["profile"]["candidates"])
        L = rng.choice([max(1, n - 1), n, n])
        vec = sorted([rng.choice([0, 0, 1, 1, 2]) for _ in range(L)], reverse=True)
        if not any(vec):
            vec[0] = 1
        case["kw"]["score_vector"] = vec
        case["kw"]["tiebreak"] = rng.choice(["borda", "borda", "first_place"])
        case["shape"] = dict(case["shape"], law="plateau-vector")
    else:
        case = G.gen_rule_case(rng, rules=RULES, max_c=6, tie_bias=0.5, pairwise_ties=True)
    if "transfer" in case["kw"]:
        case["kw"]["transfer"] = "fractional"
    case["policies"] = common.gen_policies(rng, run_seed)
    case["history"] = rng.random() < 0.3 and case["rule"] not in G.SCORE_RULES
    return case


def _tb_score_options(kind, J, J0):
    if kind == "borda":
        return [RS.borda(J), RS.borda(J0)] if J is not J0 else [RS.borda(J0)]
    if kind == "first_place":
        return [RS.fpv(J), RS.fpv(J0)] if J is not J0 else [RS.fpv(J0)]
    return []


def round_contexts(case, o, e):
    """for each outer round r>=1 with a state: dict(tally, selected, eliminated, tbkind, score_opts, elim_scores, tier_mode)"""
    rule, kw = case["rule"], case["kw"]
    J0 = case["profile"]
    st = e.election_states
    out = {}
    tbk = kw.get("tiebreak")

    def sel(s, adv=False):
        return {c for g in (s.remaining if adv else s.elected) for c in g}

    if rule in ("Plurality", "SNTV", "Borda") + G.SCORE_RULES:
        if len(st) > 1:
            t = RS.fpv(J0) if rule in ("Plurality", "SNTV") else RS.borda(J0, kw.get("score_vector")) if rule == "Borda" else RS.score_totals(J0)
            out[1] = dict(tally=t, selected=sel(st[1]), eliminated=set(), tbkind=tbk, score_opts=_tb_score_options(tbk, J0, J0) if rule not in G.SCORE_RULES else [], mode="elect")
    elif rule == "CondoBorda":
        if len(st) > 1:
            out[1] = dict(tally=None, tiers=RS.tiers(J0), selected=sel(st[1]), eliminated=set(), tbkind="borda", score_opts=[RS.borda(J0)], mode="tier")
    elif rule == "DominatingSets":
        if len(st) > 1:
            out[1] = dict(tally=None, selected=sel(st[1]), eliminated=set(), tbkind=None, score_opts=[], mode="none")
    elif rule == "TopTwo":
        inner = [x for x in o.live if type(x).__name__ == "Plurality"]
        if len(st) > 1:
            out[1] = dict(tally=RS.fpv(J0), selected=sel(st[1], adv=True), eliminated=set(), tbkind=tbk, score_opts=_tb_score_options(tbk, J0, J0), mode="elect")
        if len(st) > 2 and len(inner) >= 2:
            J1 = canon.profile_json(inner[1]._profile)
            out[2] = dict(tally=RS.fpv(J1), selected=sel(st[2]), eliminated=set(), tbkind=tbk, score_opts=_tb_score_options(tbk, J1, J1), mode="elect")
    else:
        # STV family and Alaska
        if rule == "Alaska":
            if len(st) > 1:
                out[1] = dict(tally=RS.fpv(J0), selected=sel(st[1], adv=True), eliminated=set(), tbkind=tbk, score_opts=_tb_score_options(tbk, J0, J0), mode="elect")
            inner = [x for x in o.live if type(x).__name__ == "STV"]
            stv, off = (inner[0] if inner else None), 1
        else:
            stv, off = e, 0
        if stv is not None:
            rec = seams.recorded(stv)
            Jinit = canon.profile_json(stv._profile)
            fp0 = RS.fpv(Jinit)
            for k, (pin, prev_c, pout) in enumerate(rec, start=1):
                r = k + off
                if r >= len(st):
                    break
                s = st[r]
                J = canon.profile_json(pin)
                elim = {c for g in s.eliminated for c in g}
                if elim:
                    out[r] = dict(tally=RS.fpv(J), selected=set(), eliminated=elim, tbkind="first_place", score_opts=[fp0], mode="elim")
                else:
                    # an election tie is ordered by the score of the profile being counted in that round
                    out[r] = dict(tally=RS.fpv(J), selected=sel(s), eliminated=set(), tbkind=tbk, score_opts=_tb_score_options(tbk, J, J), mode="elect")
    return out


def outer_round(case, entry):
    """outer round a logged draw belongs to (None = outside any stored round, e.g. a get_profile replay)"""
    ctx, octx = entry.get("ctx"), entry.get("octx")
    if not ctx or not octx:
        return None
    if not ctx[2]:
        return None  # re-execution of a recorded round (store_states=False)
    if case["rule"] == "Alaska" and ctx[0] == "STV":
        return ctx[1] + 1
    return octx[1]


def _cand_pop(en):
    """the draw's population is a list of candidate names (the recognisable form); else it is opaque (indices, ...)"""
    return isinstance(en.get("pop"), list) and len(en["pop"]) > 0 and all(isinstance(x, str) for x in en["pop"])


def audit(case, o, e):
    """clauses 3 and 4 -> list of (clause, message)"""
    bad = []
    ctxs = round_contexts(case, o, e)
    st = e.election_states
    draws_by_round = {}
    for en in o.seam.log:
        if not en["nt"]:
            continue
        r = outer_round(case, en)
        if r is None:
            continue
        draws_by_round.setdefault(r, []).append(en)
    for r in range(1, len(st)):
        s = st[r]
        cx = ctxs.get(r)
        tbs = canon.ctiebreaks(s.tiebreaks)
        draws = draws_by_round.get(r, [])
        if cx is None:
            if tbs or draws:
                bad.append(("unexplained-round", f"round {r} records tiebreaks {tbs} / draws but no deciding tally could be reconstructed"))
            continue
        used = [False] * len(draws)
        for S, order in tbs:
            if len(S) < 2:
                bad.append(("tiebreak-shape", f"round {r}: tiebreak recorded for {S} (fewer than two candidates)"))
                continue
            flat = [x[0] for x in order if len(x) == 1]
            if len(flat) != len(order) or sorted(flat) != S:
                bad.append(("tiebreak-shape", f"round {r}: resolution {order} is not a strict order of exactly {S}"))
                continue
            # genuinely tied on the deciding tally
            if cx["mode"] == "tier":
                if S not in cx["tiers"]:
                    bad.append(("not-tied", f"round {r}: {S} is not a dominating tier {cx['tiers']}"))
                    continue
            elif cx["mode"] == "none":
                bad.append(("not-tied", f"round {r}: rule takes no tiebreak but records {S}"))
                continue
            else:
                vals = {cx["tally"].get(c) for c in S}
                if len(vals) != 1 or None in vals:
                    bad.append(("not-tied", f"round {r}: {S} recorded as tied but exact tallies are { {c: canon.fs(cx['tally'].get(c, -1)) for c in S} }"))
                    continue
            # straddles the decision, and the round obeys the order
            if cx["mode"] == "elim":
                x = cx["eliminated"]
                low = min(cx["tally"].values())
                if len(x) != 1 or not x <= set(S) or cx["tally"][S[0]] != low:
                    bad.append(("not-deciding", f"round {r}: elimination tiebreak on {S} but eliminated {sorted(x)} (lowest tally {low})"))
                    continue
                if flat[-1] not in x:
                    bad.append(("order-disobeyed", f"round {r}: resolution {flat} but eliminated {sorted(x)} (must be listed last)"))
            else:
                chosen = [c for c in S if c in cx["selected"]]
                if not chosen or len(chosen) == len(S):
                    bad.append(("not-deciding", f"round {r}: tiebreak on {S} but {len(chosen)} of them selected: the decision did not depend on their order"))
                    continue
                k = len(chosen)
                if sorted(flat[:k]) != sorted(chosen):
                    bad.append(("order-disobeyed", f"round {r}: resolution {flat} but selected {sorted(chosen)}"))
            # clause 4: scored tiebreaks
            kind = cx["tbkind"]
            groups_needed = []
            if kind in ("borda", "first_place"):
                ok_any = False
                for sc in cx["score_opts"]:
                    if all(sc[a] >= sc[b] for a, b in zip(flat, flat[1:])):
                        ok_any = True
                        vals = sorted({sc[c] for c in S}, reverse=True)
                        groups_needed = [sorted(c for c in S if sc[c] == v) for v in vals]
                        groups_needed = [g for g in groups_needed if len(g) >= 2]
                        break
                if not ok_any:
                    bad.append(("scored-order", f"round {r}: '{kind}' resolution {flat} is not non-increasing in that score ({[{c: canon.fs(sc[c]) for c in S} for sc in cx['score_opts']]})"))
                    continue
            else:
                groups_needed = [S]
            # draws for this tiebreak: exactly one per residual tied group
            for g in groups_needed:
                hit = [i for i, en in enumerate(draws) if not used[i] and _cand_pop(en) and sorted(en["pop"]) == g]
                opaque = [i for i, en in enumerate(draws) if not used[i] and not _cand_pop(en)]
                if hit:
                    used[hit[0]] = True
                elif opaque:
                    used[opaque[0]] = True  # a draw over indices or the like: cannot be attributed more precisely
                else:
                    bad.append(("missing-draw", f"round {r}: candidates {g} are still tied on the tiebreak score but no draw over exactly them was made"))
        for i, en in enumerate(draws):
            if not used[i] and (_cand_pop(en) or not tbs):
                bad.append(("unrecorded-draw", f"round {r}: draw at {en['site']} over {en['pop']} does not belong to any recorded tiebreak {tbs}"))
    return bad


def effective_states(case, o, e):
    """recorded rounds of a run.  An Alaska construction that raised inside its STV stage never attached that stage's rounds
    to the outer election; they were recorded all the same (on the inner STV), so they are spliced in here, renumbered --
    otherwise a divergence that starts at a *recorded* elimination tie of the STV stage would look unexplained."""
    st = canon.cstates(e)
    if case["rule"] == "Alaska" and o.election is None and len(st) == 2:
        inner = [x for x in o.live if type(x).__name__ == "STV"]
        if inner:
            st = st + [dict(s, round=s["round"] + 1) for s in canon.cstates(inner[0])[1:]]
    return st


def compare(case, a, b, ea, eb, sa=None, sb=None):
    """clauses 1 and 2 on two runs (states lists, possibly partial) -> (clause, msg) or None"""
    if sa is None:
        sa, sb = canon.cstates(ea), canon.cstates(eb)
    n = min(len(sa), len(sb))
    for r in range(n):
        if sa[r] != sb[r]:
            ta = {tuple(k): v for k, v in sa[r]["tiebreaks"]}
            tb = {tuple(k): v for k, v in sb[r]["tiebreaks"]}
            common_keys = [k for k in ta if k in tb and ta[k] != tb[k]]
            if not common_keys:
                return "diverge-without-tiebreak", f"runs under {a['kind']} and {b['kind']} first differ in round {r} but do not both record a tiebreak on a common tied set resolved differently: {sa[r]} vs {sb[r]}"
            return None
    return None


def execute(case, trace=False):
    kw, rule = case["kw"], case["rule"]
    violations, probes, faults, policies = [], {}, {}, {}
    shapes, digs, logs = [], [], []
    rounds = draws = 0
    nontrivial = False
    runs = []

    def bump(d, k, v=1):
        if v:
            d[k] = d.get(k, 0) + v

    def viol(clause, msg):
        violations.append({"clause": clause, "message": f"{rule} {kw}: {msg}", "sig": {"rule": rule, "clause": clause}})

    for pol in case["policies"]:
        o = common.run_rule(case, pol, log_populations=True)
        bump(policies, pol["kind"])
        draws += o.seam.draws
        e = o.election
        partial = False
        if e is None:
            part = [x for x in o.live if type(x).__name__ == rule]
            e = part[0] if part else None
            partial = True
            bump(probes, "raised:" + type(o.exc).__name__)
        runs.append((pol, o, e, partial))
        if e is None:
            shapes.append("X")
            continue
        nr = len(e.election_states) - 1
        rounds += nr
        tb_rounds = [i for i, s in enumerate(e.election_states) if s.tiebreaks]
        shapes.append(f"{nr}:{tb_rounds}:{type(o.exc).__name__ if o.exc else 'ok'}")
        bump(faults, "recorded_tiebreaks", sum(len(s.tiebreaks) for s in e.election_states))
        bump(faults, "nontrivial_draws", o.seam.nontrivial)
        bump(faults, "scored_tiebreak_fallback_to_random", o.printed.count("Initial tiebreak"))
        if tb_rounds or o.seam.nontrivial or nr >= 2:
            nontrivial = True
        if not (partial and not isinstance(o.exc, ValueError) and rule == "Alaska"):
            for clause, msg in audit(case, o, e):
                viol(clause, f"under schedule {pol['kind']}: {msg}")
        digs.append([canon.cstates(e), type(o.exc).__name__ if o.exc else None])
        if trace:
            logs.append({"policy": pol, "draws": common.trim_log(o.seam), "states": canon.cstates(e), "exception": repr(o.exc) if o.exc else None})
    # pairwise comparison of schedules
    for i in range(len(runs)):
        for j in range(i + 1, len(runs)):
            (pa, oa, ea, pta), (pb, ob, eb, ptb) = runs[i], runs[j]
            if ea is None or eb is None:
                continue
            bad_exc = [x for x in (oa.exc, ob.exc) if x is not None and not isinstance(x, ValueError)]
            sa, sb = effective_states(case, oa, ea), effective_states(case, ob, eb)
            r = compare(case, pa, pb, ea, eb, sa, sb)
            if r:
                viol(r[0], r[1])
                continue
            if bad_exc:
                bump(probes, "pair_with_foreign_exception")
                continue
            if sa[: min(len(sa), len(sb))] == sb[: min(len(sa), len(sb))]:
                # identical prefix: the complete outcomes must agree (same length, same exception)
                ta = type(oa.exc).__name__ if oa.exc else None
                tb = type(ob.exc).__name__ if ob.exc else None
                if len(sa) != len(sb) or ta != tb:
                    viol("diverge-without-tiebreak", f"runs under {pa['kind']} and {pb['kind']} agree on every common round yet end differently: {len(sa) - 1} rounds/{ta} vs {len(sb) - 1} rounds/{tb}")
    # ---- state carried across calls: related elections in the same interpreter (same ballots, the candidate list with a
    # zero-vote candidate added / zero-vote candidates removed), each audited like the main one.  A result that depends on
    # which elections ran earlier (a cache keyed too coarsely, a mutated default) shows as an audit failure of a later one.
    if case.get("history"):
        jp = case["profile"]
        voted = {c for b in jp["ballots"] for g in (b.get("r") or []) for c in g} | {c for b in jp["ballots"] for c in (b.get("s") or {})}
        variants = []
        extra = [c for c in ("Zz", "Zy") if c not in jp["candidates"]][:1]
        explicit = {k: v for k, v in jp.items() if k != "infer"}  # a changed candidate list must be passed explicitly, never inferred
        variants.append(dict(explicit, candidates=list(jp["candidates"]) + extra))
        trimmed = [c for c in jp["candidates"] if c in voted]
        if 0 < len(trimmed) < len(jp["candidates"]):
            variants.append(dict(explicit, candidates=trimmed))
        variants.append(jp)  # and the original once more, after the others
        for vj in variants:
            n_c = len(vj["candidates"])
            kw2 = dict(kw)
            for key in ("m", "m_1", "m_2"):
                if key in kw2:
                    kw2[key] = min(kw2[key], n_c)
            if rule == "TopTwo" and n_c < 2:
                continue
            c2 = dict(case, profile=vj, kw=kw2)
            for pol in case["policies"][:2]:
                o = common.run_rule(c2, pol, log_populations=True)
                bump(faults, "history_elections")
                if o.election is None:
                    continue
                for clause, msg in audit(c2, o, o.election):
                    viol(clause, f"history: same ballots, candidates {vj['candidates']}, under schedule {pol['kind']}: {msg}")
    any_tb = any(e is not None and any(s.tiebreaks for s in e.election_states) for _, _, e, _ in runs)
    bump(probes, "cases_without_tiebreak", int(not any_tb))
    res = {
        "violations": violations, "probes": probes, "faults": faults, "policies": policies,
        "trace": f"{rule}|{sorted((k, str(v)) for k, v in kw.items())}|{shapes}",
        "nontrivial": nontrivial, "rounds": rounds, "draws": draws, "digest": digest(digs),
        "summary": {"rounds:tiebreak_rounds:outcome per schedule": shapes},
    }
    if trace:
        res["log"] = logs
    return res
