"""C13 -- composite and alias rules equal the composition they are documented to be.

Differential, under ONE schedule per comparison: a stateless directed policy makes the composite and
its separately built components meet every tie with the same resolution; a seeded (stateful) policy
works too because the component draws form a prefix of the composite's draw sequence.
TopTwo is compared with an independent exact oracle.
"""
from fractions import Fraction

from ..core import canon, seams
from ..core.seeds import stream, digest
from ..gen import profiles as G
from ..ref import scores as RS
from . import common

ID = "C13"
RUNS = {"quick": 7000, "thorough": 300000}
TIME = {"quick": 150, "thorough": 1500}
RULES = ("IRV", "SNTV", "SequentialRCV", "Alaska", "Alaska", "TopTwo", "TopTwo")
RULE_TEXT = (
    "case = seeded (profile, IRV|SNTV|SequentialRCV|Alaska|TopTwo, configuration) executed under 4 schedules; under each schedule the composite's "
    "recorded rounds are compared with the documented composition built separately under the same schedule (TopTwo: with an independent exact "
    "oracle). non-trivial = >=2 rounds or a recorded tiebreak/draw or an exception; distinct = distinct (rule, config, per-schedule outcome shape)"
)
ASSUMPTIONS = [
    "components (STV, Plurality) are the real classes; their own correctness is C02/C04's business",
    "an Alaska construction that dies in its get_profile replay under a stateful schedule is the C01 finding F-C01-ALASKA-REPLAY and is skipped here",
]
case_size = common.case_size
shrink_steps = common.rule_case_steps


def generate(run_seed, tier):
    rng = stream(run_seed, "gen")
    case = G.gen_rule_case(rng, rules=RULES, max_c=6, tie_bias=0.3)
    case["policies"] = common.gen_policies(rng, run_seed)
    return case


def _outcome(o):
    if o.election is not None:
        return canon.cstates(o.election), None
    return None, type(o.exc).__name__


def reduce_profile(jp, keep):
    keep = set(keep)
    bs = []
    for b in jp["ballots"]:
        r = [[c for c in g if c in keep] for g in (b.get("r") or [])]
        r = [g for g in r if g]
        if r and Fraction(b["w"]) > 0:
            bs.append({"r": r, "w": b["w"]})
    return {"candidates": [c for c in jp["candidates"] if c in keep], "ballots": bs}


def full_weight_transfer(winner, fpv, ballots, threshold):
    from votekit import Ballot

    out = []
    for b in ballots:
        r = tuple(s for s in (frozenset(c for c in g if c != winner) for g in b.ranking) if s)
        if r:
            out.append(Ballot(ranking=r, weight=b.weight))
    return tuple(out)


def advanced_ok(fp, m, adv):
    sure, tied = RS.top_m_sets(fp, m)
    adv = set(adv)
    if len(adv) != m or not set(sure) <= adv:
        return False
    return adv <= set(sure) | set(tied or [])


def execute(case, trace=False):
    import votekit.elections as E

    kw, rule, jp = case["kw"], case["rule"], case["profile"]
    violations, probes, faults, policies = [], {}, {}, {}
    shapes, digs, logs = [], [], []
    rounds = draws = 0
    nontrivial = False

    def bump(d, k, v=1):
        if v:
            d[k] = d.get(k, 0) + v

    def viol(clause, msg, pol):
        violations.append({"clause": clause, "message": f"{rule} {kw} under schedule {pol['kind']}: {msg}", "sig": {"rule": rule, "clause": clause}})

    def run_other(rule2, kw2, jp2, pol, transfer_fn=None):
        c2 = {"rule": rule2, "kw": kw2, "profile": jp2}
        if transfer_fn is None:
            return common.run_rule(c2, pol, log_populations=False)
        # custom transfer callable
        o = common.Outcome()
        del seams.LIVE[:]
        with seams.scheduled(pol, log_populations=False) as seam, seams.quiet():
            o.seam = seam
            try:
                p = canon.build_profile(jp2)
                o.election = E.STV(p, transfer=transfer_fn, **kw2)
            except seams.RoundBudgetExceeded as ex:
                o.exc, o.budget = ex, True
            except Exception as ex:
                o.exc = ex
        o.live = list(seams.LIVE)
        return o

    for pol in case["policies"]:
        o = common.run_rule(case, pol, log_populations=trace)
        bump(policies, pol["kind"])
        draws += o.seam.draws
        st, ex = _outcome(o)
        shape = f"{len(st) - 1}" if st is not None else "X:" + ex
        if st is not None:
            rounds += len(st) - 1
            if len(st) > 2 or any(s["tiebreaks"] for s in st):
                nontrivial = True
            bump(faults, "recorded_tiebreaks", sum(len(s["tiebreaks"]) for s in st))
        else:
            nontrivial = True
            bump(probes, "raised:" + ex)
        bump(faults, "nontrivial_draws", o.seam.nontrivial)
        if o.seam.nontrivial:
            nontrivial = True
        if ex is not None and ex != "ValueError":
            bump(probes, "left_to_C01")
            shapes.append(shape)
            continue
        exp_st, exp_ex = None, None
        if rule == "IRV":
            o2 = run_other("STV", dict(kw, m=1), jp, pol)
            exp_st, exp_ex = _outcome(o2)
        elif rule == "SNTV":
            o2 = run_other("Plurality", dict(kw), jp, pol)
            exp_st, exp_ex = _outcome(o2)
        elif rule == "SequentialRCV":
            o2 = run_other("STV", dict(kw), jp, pol, transfer_fn=full_weight_transfer)
            exp_st, exp_ex = _outcome(o2)
        elif rule == "Alaska":
            fp = RS.fpv(jp)
            o1 = run_other("Plurality", {"m": kw["m_1"], "tiebreak": kw["tiebreak"]}, jp, pol)
            s1, e1 = _outcome(o1)
            if e1 is not None:
                exp_st, exp_ex = None, e1
            else:
                adv = [c for g in s1[1]["elected"] for c in g]
                if not advanced_ok(fp, kw["m_1"], adv):
                    viol("alaska-stage1", f"Plurality stage advanced {sorted(adv)} which are not the {kw['m_1']} highest first-place candidates ({canon.cscores(fp)})", pol)
                J1 = reduce_profile(jp, adv)
                kw2 = {"m": kw["m_2"], "transfer": kw["transfer"], "quota": kw["quota"], "simultaneous": kw["simultaneous"], "tiebreak": kw["tiebreak"]}
                # the component STV must continue the same stream: replay plurality's draws first, then STV
                o2 = run_pair_after(o1, "STV", kw2, J1, pol, jp, kw)
                s2, e2 = _outcome(o2)
                if e2 is not None:
                    exp_st, exp_ex = None, e2
                else:
                    init = {"round": 0, "elected": [], "eliminated": [], "remaining": RS.groups(fp), "scores": canon.cscores(fp), "tiebreaks": []}
                    stage1 = {"round": 1, "elected": [], "eliminated": s1[1]["remaining"], "remaining": s1[1]["elected"],
                              "scores": canon.cscores(RS.fpv(J1)), "tiebreaks": s1[1]["tiebreaks"]}
                    exp_st = [init, stage1] + [dict(s, round=s["round"] + 1) for s in s2[1:]]
        elif rule == "TopTwo":
            exp_st, exp_ex = "oracle", None
            bad = toptwo_oracle(jp, kw, st, ex)
            if bad:
                viol(bad[0], bad[1], pol)
        if exp_st != "oracle":
            if exp_ex is not None and exp_ex != "ValueError":
                bump(probes, "component_left_to_C01")
            elif (st is None) != (exp_st is None) or ex != exp_ex:
                viol("outcome-kind", f"composite {'raised ' + ex if ex else 'returned'} but the documented composition {'raised ' + exp_ex if exp_ex else 'returned'}", pol)
            elif st is not None and st != exp_st:
                k = next((i for i in range(min(len(st), len(exp_st))) if st[i] != exp_st[i]), min(len(st), len(exp_st)))
                viol("rounds-differ", f"round {k}: composite {st[k] if k < len(st) else 'missing'} vs composition {exp_st[k] if k < len(exp_st) else 'missing'} ({len(st) - 1} vs {len(exp_st) - 1} rounds)", pol)
        shapes.append(shape)
        digs.append([st, ex])
        if trace:
            logs.append({"policy": pol, "draws": common.trim_log(o.seam), "states": st, "exception": ex, "expected": exp_st if exp_st != "oracle" else "independent oracle"})
    res = {
        "violations": violations, "probes": probes, "faults": faults, "policies": policies,
        "trace": f"{rule}|{sorted((k, str(v)) for k, v in kw.items())}|{shapes}",
        "nontrivial": nontrivial, "rounds": rounds, "draws": draws, "digest": digest(digs),
        "summary": {"outcome per schedule": shapes},
    }
    if trace:
        res["log"] = logs
    return res


def run_pair_after(o1, rule2, kw2, jp2, pol, jp, kw):
    """run the second component so that a *stateful* stream continues where the first stopped:
    re-run component 1 and then component 2 inside one scheduled block"""
    o = common.Outcome()
    del seams.LIVE[:]
    with seams.scheduled(pol, log_populations=False) as seam, seams.quiet():
        o.seam = seam
        try:
            G.build_election({"rule": "Plurality", "kw": {"m": kw["m_1"], "tiebreak": kw["tiebreak"]}, "profile": jp})
            o.election, o.profile = G.build_election({"rule": rule2, "kw": kw2, "profile": jp2})
        except seams.RoundBudgetExceeded as ex:
            o.exc, o.budget = ex, True
        except Exception as ex:
            o.exc = ex
    o.live = list(seams.LIVE)
    return o


def toptwo_oracle(jp, kw, st, ex):
    """independent reading of the statement -> (clause, msg) or None"""
    fp = RS.fpv(jp)
    tb = kw.get("tiebreak")
    sure, tied = RS.top_m_sets(fp, 2)
    if tied is not None and tb is None:
        if ex != "ValueError":
            return "toptwo-stage1", f"first-place tie {tied} across the run-off places with no tiebreak, but no ValueError (outcome {ex or 'returned'})"
        return None
    if st is None:
        if tied is None:
            # maybe a run-off tie
            adv = sure
            J1 = reduce_profile(jp, adv)
            f1 = RS.fpv(J1)
            if tb is None and len(set(f1.values())) == 1 and len(f1) == 2:
                return None
            return "toptwo-raise", f"raised {ex} although there is no unbroken tie (first places {canon.cscores(fp)}, run-off {canon.cscores(f1)})"
        return "toptwo-raise", f"raised {ex} although a tiebreak was requested"
    if len(st) != 3:
        # the statement fixes the winner, not how many rounds are recorded: judge the winner only
        got = [c for s_ in st for g in s_["elected"] for c in g]
        adv2, tied2 = RS.top_m_sets(fp, 2)
        if tied2 is None:
            f1 = RS.fpv(reduce_profile(jp, adv2))
            best = max(f1.values())
            if len(got) != 1 or f1.get(got[0]) != best:
                return "toptwo-winner", f"winner {got}, head-to-head first-preference tallies {canon.cscores(f1)}"
        return None
    adv = [c for g in st[1]["remaining"] for c in g]
    if not advanced_ok(fp, 2, adv):
        return "toptwo-stage1", f"advanced {sorted(adv)} are not the two highest first-place candidates ({canon.cscores(fp)})"
    out1 = sorted(c for g in st[1]["eliminated"] for c in g)
    if out1 != sorted(c for c in jp["candidates"] if c not in adv):
        return "toptwo-stage1", f"eliminated {out1} in round 1, expected everyone but {sorted(adv)}"
    J1 = reduce_profile(jp, adv)
    f1 = RS.fpv(J1)
    if st[1]["scores"] != canon.cscores(f1):
        return "toptwo-runoff-tally", f"run-off tallies {st[1]['scores']} vs head-to-head first preferences {canon.cscores(f1)}"
    best = max(f1.values())
    winners = sorted(c for c in f1 if f1[c] == best)
    got = [c for g in st[2]["elected"] for c in g]
    if len(got) != 1 or got[0] not in winners:
        return "toptwo-winner", f"winner {got}, head-to-head first-preference winner(s) {winners} ({canon.cscores(f1)})"
    if len(winners) > 1 and tb is None:
        return "toptwo-runoff-tie", f"run-off tie {winners} with no tiebreak but a winner {got} was returned"
    return None
