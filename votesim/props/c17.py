"""C17 -- randomised rules and random tiebreaks draw from the documented distributions.

 O  seam observation (exact): every draw RandomDictator / BoostedRandomDictator makes is logged with its population and
    parameters; the oracle checks that the dictator ballot is drawn from exactly the current ballots with their weights,
    that a tied first place is broken by a uniform permutation of exactly that set, that BRD's branch is consistent with
    the logged uniform and the threshold 1/(c-1), and that the squares branch's probability vector is the normalised
    squared first-place shares (exact reference tallies of the recorded input profile);
 B  BRD's branch threshold located by bisection on the *scripted* uniform;
 T  tie population (exact): Plurality/SNTV boundary ties and IRV elimination ties among candidates whose totals are equal as
    rationals but reached through different decompositions; under every schedule the deciding draw must range over all of them;
 F  end-to-end seeded frequency tests (genuine generator): winner (sequence) frequencies against the enumerated law,
    and uniformity of random tie resolution (Plurality boundary tie, STV elimination tie); exact binomial, two-stage.
"""
from fractions import Fraction

from ..core import canon, seams, stats
from ..core.seeds import stream, digest, derive
from ..gen import profiles as G
from ..ref import scores as RS
from . import common

ID = "C17"
RUNS = {"quick": 1200, "thorough": 100000}
TIME = {"quick": 150, "thorough": 1500}
N1 = {"quick": 1200, "thorough": 3000}
WALL = 240.0
RULE_TEXT = (
    "case kinds: O = seeded profile (tied first places, partial ballots, rational weights, zero-vote candidates) x RandomDictator|BoostedRandomDictator x m under 4 schedules "
    "with every logged draw audited; B = BRD with the acceptance threshold located by bisection on the scripted uniform; T = Plurality/SNTV/IRV tie among exactly level candidates (totals decomposed differently), the draw population audited under 4 schedules; F = n1 seeded constructions (genuine generator) of "
    "RD/BRD (m in 1..2), Plurality with a boundary tie or STV with an elimination tie, frequencies vs the enumerated law. non-trivial = O/B with >=2 rounds or a tied first "
    "place, every F; distinct = distinct (kind, rule, m, profile shape, branch pattern) signature"
)
ASSUMPTIONS = [
    "random.choices, random.sample, random.uniform and numpy.random.choice are trusted to implement their documented laws; the seam pins the *arguments* they are called with",
    "frequency verdicts need two disjoint seeded samples and p < 1e-10 per cell",
    "profiles on which the rule cannot fill m seats (fewer ranked candidates than seats) are C01 findings and excluded here",
]
case_size = common.case_size


def gen_profile(rng, m_max=3):
    n = rng.randint(2, 5)
    names, _fam = G.gen_names(rng, n)  # plain / disorder / odd / nested (one name contained in another)
    wf = rng.choice(["small", "mid", "rat"])
    bs = []
    for _ in range(rng.randint(1, 7)):
        k = rng.randint(1, n)
        perm = rng.sample(names, k)
        r = [[c] for c in perm]
        if k >= 2 and rng.random() < 0.35:
            t = 2 if k < 3 or rng.random() < 0.5 else rng.randint(3, k)  # two-way and larger first-place ties
            r = [sorted(perm[:t])] + r[t:]
        bs.append({"r": r, "w": canon.fs(G.gen_weight(rng, wf))})
    if len(bs) >= 2 and rng.random() < 0.1:
        # survey-style weights normalised to mean 1: unequal, yet the total equals the number of ballots
        tot = sum((Fraction(b["w"]) for b in bs), Fraction(0))
        if len({b["w"] for b in bs}) >= 2:
            bs = [dict(b, w=canon.fs(Fraction(b["w"]) * len(bs) / tot)) for b in bs]
    return {"candidates": names, "ballots": bs}


def mentioned(jp):
    return {c for b in jp["ballots"] if Fraction(b["w"]) > 0 for g in b["r"] for c in g}


def generate(run_seed, tier):
    rng = stream(run_seed, "gen")
    kind = G.wchoice(rng, [("O", 80), ("B", 12), ("T", 14), ("F", 2.5 if tier == "quick" else 4)])
    seed = derive(run_seed, "stream") % 10**9
    if kind in ("O", "B"):
        jp = gen_profile(rng)
        rule = rng.choice(["RandomDictator", "BoostedRandomDictator"]) if kind == "O" else "BoostedRandomDictator"
        m = rng.randint(1, max(1, min(len(mentioned(jp)), 3)))
        case = {"kind": kind, "rule": rule, "kw": {"m": m}, "profile": jp, "policies": common.gen_policies(rng, run_seed), "seed": seed}
        return case
    sub = rng.choice(["RandomDictator", "BoostedRandomDictator", "PluralityTie", "STVElimTie"]) if kind == "F" else rng.choice(["PluralityTie", "STVElimTie", "STVZeroTie"])
    if sub == "STVZeroTie":
        # every ballot is exhausted once the supported candidates are elected; the remaining seat(s) go to zero-vote candidates,
        # who are level now and were level in round 0: only a draw over all of them can decide who is eliminated
        z = rng.randint(2, 4)
        sup = rng.randint(1, 2)
        names = G.NAME_FAMILIES["plain"][: sup + z]
        rng.shuffle(names)
        supported, zero = names[:sup], names[sup:]
        bs = [{"r": [[c]] + ([[d] for d in supported if d != c] if rng.random() < 0.5 else []), "w": str(rng.randint(2, 6))} for c in supported]
        m = sup + rng.randint(1, z - 1)
        jp = {"candidates": sorted(names), "ballots": bs}
        return {"kind": "T", "sub": sub, "rule": "STV", "kw": {"m": m, "quota": "droop", "simultaneous": rng.random() < 0.5, "tiebreak": rng.choice(["random", "borda", "first_place"]), "transfer": "fractional"},
                "profile": jp, "n1": N1[tier], "seed": seed, "tied": zero, "policies": common.gen_policies(rng, run_seed)}
    if sub in ("RandomDictator", "BoostedRandomDictator"):
        jp = gen_profile(rng)
        jp["candidates"] = jp["candidates"][:4]
        jp["ballots"] = [dict(b, r=[[c for c in g if c in jp["candidates"]] for g in b["r"]]) for b in jp["ballots"]]
        jp["ballots"] = [dict(b, r=[g for g in b["r"] if g]) for b in jp["ballots"]]
        jp["ballots"] = [b for b in jp["ballots"] if b["r"]] or [{"r": [[jp["candidates"][0]]], "w": "1"}]
        m = rng.randint(1, max(1, min(len(mentioned(jp)), 2)))
        return {"kind": "F", "sub": sub, "rule": sub, "kw": {"m": m}, "profile": jp, "n1": N1[tier], "seed": seed, "policies": []}
    # tie cases: k candidates tied on first place across the boundary
    k = rng.randint(2, 4)
    names = G.NAME_FAMILIES["plain"][: k + rng.randint(0, 1)]
    tied = names[:k]
    def tail(c):
        return [[x] for x in rng.sample([y for y in names if y != c], rng.randint(0, len(names) - 1))]

    if rng.random() < 0.3:
        bs = [{"r": [[c]] + tail(c), "w": "2"} for c in tied]
    else:
        # the same total reached by a different decomposition for every tied candidate (thirds, sevenths, a shared tied first
        # place): the totals are exactly equal as rationals, while any float detour rounds each sum differently
        T = Fraction(rng.choice([1, 2, 2, 3, 5])) / rng.choice([1, 1, 3])
        bs = []
        shared = None
        for c in tied:
            if shared == c:
                continue
            style = rng.choice(["single", "thirds", "thirds", "sevenths", "fifths", "shared" if sub == "PluralityTie" else "thirds"])
            partners = [d for d in tied if d != c and tied.index(d) > tied.index(c) and shared is None]
            if style == "shared" and partners:
                shared = partners[0]
                rest = [[x] for x in rng.sample([y for y in names if y not in (c, shared)], rng.randint(0, len(names) - 2))]
                bs.append({"r": [sorted([c, shared])] + rest, "w": canon.fs(2 * T)})
                continue
            parts = {"single": [1], "thirds": [Fraction(1, 3), Fraction(2, 3)], "sevenths": [Fraction(1, 7), Fraction(2, 7), Fraction(4, 7)],
                     "fifths": [Fraction(2, 5), Fraction(3, 5)], "shared": [1]}[style]
            for f in parts:
                bs.append({"r": [[c]] + tail(c), "w": canon.fs(T * f)})
        rng.shuffle(bs)
    each = sum((Fraction(b["w"]) for b in bs), Fraction(0)) / k
    if len(names) > k:
        # Plurality: an outsider seated before the tie; IRV: an outsider above the tied (lowest) candidates but short of a majority
        bs.append({"r": [[names[-1]]], "w": canon.fs(each * 3 if sub == "PluralityTie" else each * Fraction(3, 2))})
    jp = {"candidates": names, "ballots": bs}
    pols = common.gen_policies(rng, run_seed) if kind == "T" else []
    if sub == "PluralityTie":
        m = rng.randint(1, k - 1) + (1 if len(names) > k else 0)
        rule = rng.choice(["Plurality", "SNTV"]) if kind == "T" else "Plurality"
        return {"kind": kind, "sub": sub, "rule": rule, "kw": {"m": m, "tiebreak": "random"}, "profile": jp, "n1": N1[tier], "seed": seed, "tied": tied, "policies": pols}
    return {"kind": kind, "sub": sub, "rule": "IRV", "kw": {"tiebreak": "random"}, "profile": jp, "n1": N1[tier], "seed": seed, "tied": tied, "policies": pols}


def shrink_steps(case):
    if case["kind"] in ("O", "B"):
        yield from common.rule_case_steps(case)


# ------------------------------------------------------------------------------------------ laws
def rd_first_law(jp):
    """RandomDictator one-seat law on a JSON profile (tied first place split evenly)"""
    W = sum((Fraction(b["w"]) for b in jp["ballots"]), Fraction(0))
    law = {c: Fraction(0) for c in jp["candidates"]}
    for b in jp["ballots"]:
        g = b["r"][0]
        for c in g:
            law[c] += Fraction(b["w"]) / W / len(g)
    return law


def remove(jp, c):
    bs = []
    for b in jp["ballots"]:
        r = [[x for x in g if x != c] for g in b["r"]]
        r = [g for g in r if g]
        if r:
            bs.append({"r": r, "w": b["w"]})
    return {"candidates": [x for x in jp["candidates"] if x != c], "ballots": bs}


def brd_first_law(jp):
    c = len(jp["candidates"])
    if c == 1:
        return {jp["candidates"][0]: Fraction(1)}
    f = RS.fpv(jp)
    tot2 = sum(v * v for v in f.values())
    sq = {k: v * v / tot2 for k, v in f.items()}
    rd = rd_first_law(jp)
    a = Fraction(1, c - 1)
    return {k: a * sq[k] + (1 - a) * rd[k] for k in jp["candidates"]}


def sequence_law(jp, m, first):
    out = {}

    def rec(p, prefix, pr):
        if len(prefix) == m:
            out[tuple(prefix)] = out.get(tuple(prefix), 0.0) + float(pr)
            return
        if not p["ballots"] and len(p["candidates"]) != 1:
            return
        for c, q in first(p).items():
            if q > 0:
                rec(remove(p, c), prefix + [c], pr * q)

    rec(jp, [], Fraction(1))
    return out


# ------------------------------------------------------------------------------------------ O
def audit_run(case, o, e):
    """check every logged draw of one RD/BRD construction -> list of (clause, msg), info"""
    bad = []
    info = {"rounds": 0, "squares": 0, "dictator": 0, "tied_first": 0, "last_candidate": 0}
    rule = case["rule"]
    rec = seams.recorded(e)
    by_round = {}
    for en in o.seam.log:
        if en["ctx"] and en["ctx"][0] == rule and en["ctx"][2]:
            by_round.setdefault(en["ctx"][1], []).append(en)
    st = e.election_states
    for r, (pin, prev_c, pout) in enumerate(rec, start=1):
        if r >= len(st):
            break
        info["rounds"] += 1
        ens = by_round.get(r, [])
        J = canon.profile_json(pin)
        winner = [c for g in st[r].elected for c in g]
        ncand = len(pin.candidates)
        uni = [x for x in ens if x["kind"] in ("uniform", "random", "np.uniform")]
        cho = [x for x in ens if x["kind"] == "choices"]
        npc = [x for x in ens if x["kind"] == "np.choice"]
        smp = [x for x in ens if x["kind"] in ("sample", "shuffle")]  # a uniform permutation either way
        exp_ballots = sorted([[canon.cballot(b)["r"], canon.fs(b.weight)] for b in pin.ballots])
        if rule == "BoostedRandomDictator":
            if len(uni) != 1 or uni[0]["pop"] != [0, 1]:
                bad.append(("brd-uniform", f"round {r}: expected exactly one uniform(0,1) draw, saw {[(x['kind'], x['pop']) for x in uni]}"))
                continue
            u = uni[0]["out"]
            if ncand == 1:
                info["last_candidate"] += 1
                if cho or npc:
                    bad.append(("brd-last", f"round {r}: one candidate left but a sampling draw was made"))
                continue
            thr = 1.0 / (ncand - 1)
            want_sq = u <= thr
            if want_sq != bool(npc) or want_sq == bool(cho):
                bad.append(("brd-branch", f"round {r}: uniform {u:.6f} with {ncand} candidates (threshold 1/(c-1) = {thr:.6f}) but the {'squares' if npc else 'dictator'} branch ran"))
                continue
            if npc:
                info["squares"] += 1
                f = RS.fpv(J)
                tot2 = sum(v * v for v in f.values())
                if tot2 == 0:
                    continue
                en = npc[0]
                got = dict(zip(en["pop"], en["p"]))
                if sorted(got) != sorted(f):
                    bad.append(("brd-squares", f"round {r}: squares draw over {sorted(got)} but candidates are {sorted(f)}"))
                elif any(abs(got[c] - float(f[c] * f[c] / tot2)) > 1e-12 for c in f):
                    bad.append(("brd-squares", f"round {r}: squares probabilities {got} but normalised squared first-place shares are { {c: float(f[c] * f[c] / tot2) for c in f} }"))
                if winner != en["out"]:
                    bad.append(("brd-winner", f"round {r}: drew {en['out']} but elected {winner}"))
                continue
        # dictator branch (RD always)
        info["dictator"] += 1
        if len(cho) != 1:
            bad.append(("dictator-draw", f"round {r}: expected one random.choices draw of the dictator ballot, saw {len(cho)}"))
            continue
        en = cho[0]
        if en["pop"] and not all(isinstance(x, (str, dict)) for x in en["pop"]):
            info["opaque"] = info.get("opaque", 0) + 1  # e.g. indices: the law is then judged by the frequency arm only
            continue
        if en["pop"] and all(isinstance(x, str) for x in en["pop"]):
            # an implementation drawing the candidate directly: weights must be proportional to the first-place shares
            law = rd_first_law(J)
            ws = [Fraction(w) for w in en["weights"]]
            tot = sum(ws)
            if tot == 0 or any(Fraction(w) / tot != law.get(c, 0) for c, w in zip(en["pop"], ws)) or any(law[c] > 0 and c not in en["pop"] for c in law):
                bad.append(("dictator-population", f"round {r}: candidate drawn with weights {dict(zip(en['pop'], en['weights']))}, first-place shares are {canon.cscores(law)}"))
            elif winner != en["out"]:
                bad.append(("dictator-winner", f"round {r}: drew {en['out']} but elected {winner}"))
            continue
        got = sorted([[b["r"], w] for b, w in zip(en["pop"], en["weights"])])
        if got != exp_ballots or en["k"] != 1:
            bad.append(("dictator-population", f"round {r}: dictator drawn from {got} but the current ballots and weights are {exp_ballots}"))
            continue
        first = en["out"][0]["r"][0]
        if len(first) > 1:
            info["tied_first"] += 1
            if len(smp) != 1 or sorted(smp[0]["pop"]) != sorted(first) or smp[0]["k"] != len(first):
                bad.append(("tie-permutation", f"round {r}: tied first place {first} must be broken by one uniform permutation of exactly that set, saw {[(x['pop'], x['k']) for x in smp]}"))
                continue
            w = smp[0]["out"][0]
            tb = canon.ctiebreaks(st[r].tiebreaks)
            if not tb or tb[0][0] != sorted(first):
                bad.append(("tie-recorded", f"round {r}: tied first place {first} not recorded in tiebreaks {tb}"))
        else:
            w = first[0]
            if smp:
                bad.append(("tie-permutation", f"round {r}: untied first place {first} but a tiebreak draw was made"))
        if winner != [w]:
            bad.append(("dictator-winner", f"round {r}: dictator ballot {en['out'][0]['r']} (resolved first choice {w}) but elected {winner}"))
    # "for each seat in turn ... the current first-place weight": the profile a seat is drawn from must be the previous
    # one with exactly the winner struck out (ties among the others stay ties)
    for r, (pin, prev_c, pout) in enumerate(rec, start=1):
        if r >= len(st):
            break
        winner = [c for g in st[r].elected for c in g]
        if len(winner) != 1:
            continue
        exp = canon.pmap(canon.build_profile(remove(canon.profile_json(pin), winner[0])))
        if canon.pmap(pout) != exp:
            bad.append(("successor", f"round {r}: after electing {winner[0]} the ballots are {canon.cpmap(pout)} but striking the winner from the previous ballots gives {canon.cpmap(canon.build_profile(remove(canon.profile_json(pin), winner[0])))}"))
            break
    return bad, info


def execute_observe(case, trace):
    violations, probes, faults, policies = [], {}, {}, {}
    rule, kw = case["rule"], case["kw"]
    shapes, digs, logs = [], [], []
    rounds = draws = 0
    nontrivial = False

    def bump(d, k, v=1):
        if v:
            d[k] = d.get(k, 0) + v

    for pol in case["policies"]:
        o = common.run_rule(case, pol)
        bump(policies, pol["kind"])
        draws += o.seam.draws
        if o.election is None:
            bump(probes, "left_to_C01:" + type(o.exc).__name__)
            shapes.append("X")
            continue
        bad, info = audit_run(case, o, o.election)
        rounds += info["rounds"]
        bump(faults, "squares_branch", info["squares"])
        bump(faults, "dictator_branch", info["dictator"])
        bump(faults, "tied_first_place", info["tied_first"])
        bump(faults, "last_candidate", info["last_candidate"])
        if info["rounds"] >= 2 or info["tied_first"]:
            nontrivial = True
        shapes.append(f"{info['rounds']}s{info['squares']}d{info['dictator']}t{info['tied_first']}")
        for clause, msg in bad:
            violations.append({"clause": clause, "message": f"{rule} {kw} under schedule {pol['kind']}: {msg}", "sig": {"kind": "O", "rule": rule, "clause": clause}})
        digs.append([canon.cstates(o.election), common.log_outcomes(o.seam)])
        if trace:
            logs.append({"policy": pol, "draws": common.trim_log(o.seam), "states": canon.cstates(o.election)})
    res = {"violations": violations, "probes": probes, "faults": faults, "policies": policies,
           "trace": f"O|{rule}|{kw['m']}|{len(case['profile']['candidates'])}|{shapes}", "nontrivial": nontrivial, "rounds": rounds, "draws": draws,
           "digest": digest(digs), "summary": {"per schedule (rounds, squares, dictator, tied)": shapes}}
    if trace:
        res["log"] = logs
    return res


def execute_bisect(case, trace):
    """locate BRD's round-1 branch threshold on the scripted uniform"""
    violations = []
    jp = case["profile"]
    c = len(jp["candidates"])
    steps = [0]

    def squares(u):
        steps[0] += 1
        pol = {"kind": "scripted", "decisions": [{"u": u}], "base": "asc"}
        o = common.run_rule(dict(case, kw={"m": 1}), pol, log_populations=False)
        if o.election is None:
            raise RuntimeError(repr(o.exc))
        first = [e for e in o.seam.log if e["ctx"] and e["ctx"][1] == 1 and e["ctx"][2]]
        return any(e["kind"] == "np.choice" for e in first)

    probes = {}
    thr = None
    try:
        eps = 2.0 ** -40
        if c == 1:
            thr = None
        elif not squares(eps):
            thr = 0.0
        elif squares(1 - eps):
            thr = 1.0
        else:
            a, b = eps, 1 - eps
            for _ in range(36):
                mid = (a + b) / 2
                if squares(mid):
                    a = mid
                else:
                    b = mid
            thr = (a + b) / 2
    except RuntimeError as ex:
        probes["left_to_C01"] = 1
    if thr is not None:
        want = 1.0 / (c - 1)
        if abs(thr - want) > 1e-8:
            violations.append({"clause": "brd-threshold", "message": f"BoostedRandomDictator with {c} candidates: the proportional-to-squares branch is taken for uniform draws up to {thr:.8f}, documented probability 1/(c-1) = {want:.8f}",
                               "sig": {"kind": "B", "rule": "BoostedRandomDictator", "clause": "brd-threshold"}})
    res = {"violations": violations, "probes": probes, "faults": {"scripted_bisection_steps": steps[0]}, "policies": {"scripted": 1},
           "trace": f"B|{c}", "nontrivial": c >= 3, "rounds": steps[0], "draws": steps[0], "digest": digest([thr]), "summary": {"candidates": c, "threshold_found": thr}}
    if trace:
        res["log"] = [{"threshold": thr}]
    return res


# ------------------------------------------------------------------------------------------ F
def execute_freq(case, trace):
    import votekit.elections as E

    violations, probes = [], {}
    sub, kw, jp = case["sub"], case["kw"], case["profile"]
    seed = case["seed"]
    n1 = case["n1"]
    if sub in ("RandomDictator", "BoostedRandomDictator"):
        law = sequence_law(jp, kw["m"], rd_first_law if sub == "RandomDictator" else brd_first_law)
    else:
        tied = case["tied"]
        law = {c: 1.0 / len(tied) for c in tied}

    def sample(n, sd):
        seams.uninstall()
        seams.seed_real_streams(sd)
        p = canon.build_profile(jp)
        counts = {}
        for _ in range(n):
            with seams.quiet():
                e = getattr(E, case["rule"])(p, **kw)
            if sub in ("RandomDictator", "BoostedRandomDictator"):
                cell = tuple(c for g in e.get_elected() for c in g)
            elif sub == "PluralityTie":
                # which tied candidate is the last one seated
                tb = list(e.election_states[1].tiebreaks.values())[0]
                el = [c for g in e.get_elected() for c in g]
                seated = [next(iter(g)) for g in tb if next(iter(g)) in el]
                cell = seated[-1]
            else:
                # first eliminated among the tied lowest candidates
                cell = next(iter(e.election_states[1].eliminated[0]))
            counts[cell] = counts.get(cell, 0) + 1
        return counts

    try:
        c1 = sample(n1, derive(seed, "stage1"))
    except seams.WallAlarm:
        raise
    except Exception as ex:
        return {"violations": [], "probes": {"left_to_C01:" + type(ex).__name__: 1}, "faults": {}, "policies": {"seeded(genuine generator)": 1}, "trace": f"F|{sub}|raised",
                "nontrivial": False, "rounds": 0, "draws": 0, "digest": digest(type(ex).__name__), "summary": {"raised": repr(ex)[:200]}}
    flagged = stats.screen(c1, n1, law)
    confirmed = []
    if flagged:
        n2 = 10 * n1
        c2 = sample(n2, derive(seed, "stage2"))
        confirmed = stats.screen({c: c2.get(c, 0) for c, *_ in flagged}, n2, {c: law.get(c, 0.0) for c, *_ in flagged}, threshold=stats.CONFIRM_P)
        for cell, k2, p2, pv2 in confirmed[:1]:
            violations.append({"clause": "frequency", "message": f"{sub} {kw} on {jp}: outcome {cell} observed {k2}/{n2} = {k2 / n2:.4f}, law {p2:.4f} (exact binomial p = {pv2:.2e}, confirmed on a fresh stream)",
                               "sig": {"kind": "F", "rule": sub, "clause": "frequency"}})
    worst = min([stats.two_sided_p(c1.get(c, 0), n1, p) for c, p in law.items()] or [1.0])
    probes["cells_tested"] = len(law)
    probes["cells_screened"] = len(flagged)
    res = {"violations": violations, "probes": probes, "faults": {"genuine_generator_elections": n1 + (10 * n1 if flagged else 0)}, "policies": {"seeded(genuine generator)": 1},
           "trace": f"F|{sub}|{kw.get('m')}|{len(jp['candidates'])}|{len(law)}", "nontrivial": True, "rounds": n1, "draws": 0,
           "digest": digest(sorted((str(c), v) for c, v in c1.items())),
           "summary": {"rule": sub, "law": {str(c): round(p, 4) for c, p in sorted(law.items(), key=lambda kv: -kv[1])[:8]}, "observed": {str(c): v for c, v in sorted(c1.items(), key=lambda kv: -kv[1])[:8]}, "n": n1, "smallest_cell_p_value": worst}}
    if trace:
        res["log"] = [res["summary"]]
    return res


def execute_tieset(case, trace):
    """deterministic companion of the frequency arm: candidates whose totals are exactly equal (as rationals, by construction) and
    straddle the contested seat must ALL be in the population of the draw that decides among them -- a tied candidate left out of
    the draw takes the seat (or is eliminated) with probability 0 instead of 1/k.  Only draws whose population is recognisable as
    candidates are judged; a population that is a superset of the tied set (e.g. a shuffle of all candidates) is accepted."""
    violations, probes, faults, policies = [], {}, {}, {}
    S = set(case["tied"])
    names = set(case["profile"]["candidates"])
    digs, logs = [], []
    rounds = draws = 0

    def flat(pop):
        out = []
        for x in pop:
            if isinstance(x, list):
                out.extend(flat(x))
            else:
                out.append(x)
        return out

    for pol in case["policies"]:
        o = common.run_rule(case, pol, log_populations=True)
        policies[pol["kind"]] = policies.get(pol["kind"], 0) + 1
        draws += o.seam.draws
        if o.election is None:
            probes["left_to_C01:" + type(o.exc).__name__] = probes.get("left_to_C01:" + type(o.exc).__name__, 0) + 1
            continue
        rounds += len(o.election.election_states) - 1
        cand_draws = []
        for e in o.seam.log:
            pop = flat(e.get("pop") or [])
            if pop and all(isinstance(x, str) and x in names for x in pop):
                cand_draws.append(set(pop))
        if not cand_draws and o.seam.nontrivial == 0:
            violations.append({
                "clause": "tie-without-draw",
                "message": f"{case['rule']} {case['kw']} on {case['profile']} under schedule {pol['kind']}: candidates {sorted(S)} are exactly level across the contested seat "
                           f"(and were level on every earlier tally), yet the run made no random choice at all: the order in which they lose is fixed, not uniform",
                "sig": {"kind": "T", "rule": case["sub"], "clause": "tie-without-draw"},
            })
            break
        elif not cand_draws:
            probes["tie_draw_not_recognisable"] = probes.get("tie_draw_not_recognisable", 0) + 1
        elif not any(S <= p for p in cand_draws):
            faults["decomposed_exact_ties"] = faults.get("decomposed_exact_ties", 0) + 1
            violations.append({
                "clause": "tie-population",
                "message": f"{case['rule']} {case['kw']} on {case['profile']} under schedule {pol['kind']}: candidates {sorted(S)} have exactly equal totals across the contested seat, "
                           f"but the random draws were made over {[sorted(p) for p in cand_draws][:4]} only: a tied candidate outside the draw can never take the seat / be the one eliminated",
                "sig": {"kind": "T", "rule": case["sub"], "clause": "tie-population"},
            })
            break
        else:
            faults["decomposed_exact_ties"] = faults.get("decomposed_exact_ties", 0) + 1
        digs.append(canon.cstates(o.election))
        if trace:
            logs.append({"policy": pol, "draws": common.trim_log(o.seam), "states": canon.cstates(o.election)})
    res = {"violations": violations, "probes": probes, "faults": faults, "policies": policies, "trace": f"T|{case['sub']}|{case['rule']}|{len(S)}|{len(names)}|{case['kw'].get('m')}",
           "nontrivial": True, "rounds": rounds, "draws": draws, "digest": digest(digs), "summary": {"rule": case["rule"], "tied": sorted(S)}}
    if trace:
        res["log"] = logs
    return res


def execute(case, trace=False):
    if case["kind"] == "T":
        return execute_tieset(case, trace)
    if case["kind"] == "O":
        return execute_observe(case, trace)
    if case["kind"] == "B":
        return execute_bisect(case, trace)
    return execute_freq(case, trace)
