"""C07 -- STV meets Droop proportionality for solid coalitions (IRV majority criterion).

Oracle independent of the count: for every candidate subset S, W_S = weight of ballots whose first |S|
positions are exactly S; k = floor(W_S / q); require |elected & S| >= min(k, |S|, m).
Schedule = adversary: for each coalition with k >= 1 the run is repeated with every tie resolved against
S (elimination ties eliminate a member, one-by-one election ties elect non-members first) and every
random-transfer sample taken from ballots that do not continue inside S first.
"""
from fractions import Fraction
from itertools import combinations

from ..core import canon, seams
from ..core.seeds import stream, digest, derive
from ..gen import profiles as G
from ..ref import stv as R
from . import common

ID = "C07"
RUNS = {"quick": 6000, "thorough": 150000}
TIME = {"quick": 150, "thorough": 1500}
RULE_TEXT = (
    "case = seeded profile with 1-2 planted solid coalitions (members ranked in varying orders, weights around multiples of the quota) + background ballots, "
    "STV (or IRV) with the Droop quota, m, simultaneous/one-by-one, fractional/random transfer, tiebreak in {random, borda, first_place}; executed under asc, desc, "
    "seeded and up to 8 adversary(S) schedules; every subset S checked on every completed run. non-trivial = some S with k>=1 and S != all candidates and >=2 rounds; "
    "distinct = distinct (config, coalition sizes/k, round counts) signature"
)
ASSUMPTIONS = [
    "a solid coalition ballot ranks exactly the members of S (in any order) in its first |S| positions",
    "runs that raise (e.g. tiebreak=None boundary ties) are counted and left to C01",
    "Droop quota only; <=6 candidates so all <=63 subsets are enumerated",
]
case_size = common.case_size
shrink_steps = common.rule_case_steps


def partition(rng, total, parts):
    """random composition of `total` into `parts` positive integers (fewer parts if total is small)"""
    parts = max(1, min(parts, total))
    cuts = sorted(rng.sample(range(1, total), parts - 1)) if parts > 1 else []
    return [b - a for a, b in zip([0] + cuts, cuts + [total])]


def generate_tight(rng, run_seed):
    """a coalition sitting *exactly* on k quotas, its support spread over several piles in different orders:
    the configuration in which any loss of transferred weight (rounding, truncation, a dropped ballot) costs a seat"""
    n = rng.randint(3, 6)
    names, fam = G.gen_names(rng, n)
    m = rng.randint(1, n - 1)
    q = rng.randint(2, 12)
    k = rng.randint(1, m)
    s = rng.randint(k, n - 1)
    S = rng.sample(names, s)
    others = [c for c in names if c not in S]
    lo, hi = (q - 1) * (m + 1), q * (m + 1) - 1
    WS = k * q
    N = rng.randint(max(lo, WS), hi)
    ballots = []
    for w in partition(rng, WS, rng.randint(2, 6)):
        order = rng.sample(S, s)
        tail = rng.sample(others, rng.randint(0, len(others)))
        ballots.append(([[c] for c in order + tail], Fraction(w)))
    rest = N - WS
    if rest > 0:
        for w in partition(rng, rest, rng.randint(1, 4)):
            first = rng.choice(others)
            tail = rng.sample([c for c in names if c != first], rng.randint(0, n - 1))
            ballots.append(([[first]] + [[c] for c in tail], Fraction(w)))
    rng.shuffle(ballots)
    jp = {"candidates": names, "ballots": [{"r": r, "w": canon.fs(w)} for r, w in ballots]}
    transfer = G.wchoice(rng, [("fractional", 4), ("random", 1)])
    kw = {"m": m, "quota": "droop", "simultaneous": rng.random() < 0.5, "tiebreak": rng.choice(["random", "borda", "first_place"]), "transfer": transfer}
    return {"rule": "STV", "kw": kw, "profile": jp, "shape": {"n": n, "names": fam, "wfam": "tight", "planted": [sorted(S)], "nb": len(ballots), "tight": [k, q]},
            "policies": common.gen_policies(rng, run_seed, kinds=("asc", "desc", "seeded")), "adv_seed": derive(run_seed, "adv") % 10**6}


def generate_straddle(rng, run_seed):
    """the seats the coalition is NOT owed are contested by outsiders sitting exactly on the quota, except one who is short of
    it by less than 1e-9: treating that one as level with the others (rounded or float tallies) hands it a seat the coalition
    is owed.  N = (m+1)q - eps keeps the threshold at q."""
    for _ in range(20):
        n = rng.randint(3, 6)
        k = rng.randint(1, 2)
        s = rng.randint(k, k + 1)
        if n - s < 1:
            continue
        m = rng.randint(k, n - s + k - 1) if n - s + k - 1 >= k else None
        if m is None:
            continue
        j = m + 1 - k
        if j < 1 or j > n - s:
            continue
        names, fam = G.gen_names(rng, n)
        S = rng.sample(names, s)
        others = [c for c in names if c not in S]
        rng.shuffle(others)
        q = rng.randint(3, 40)
        eps = rng.choice([Fraction(1, 10**12), Fraction(1, 10**15), Fraction(1, 2**40), Fraction(1, 3 * 10**10)])
        ballots = []
        for w in partition(rng, k * q, rng.randint(2, 5)):
            order = rng.sample(S, s)
            tail = rng.sample(others, rng.randint(0, len(others)))
            ballots.append(([[c] for c in order + tail], Fraction(w)))
        for i, o in enumerate(others[:j]):
            parts = [Fraction(w) for w in partition(rng, q, rng.randint(1, 2))]
            if i == 0:
                parts[0] -= eps
            for w in parts:
                tail = rng.sample([c for c in names if c != o], rng.randint(0, n - 1))
                ballots.append(([[o]] + [[c] for c in tail], w))
        rng.shuffle(ballots)
        jp = {"candidates": names, "ballots": [{"r": r, "w": canon.fs(w)} for r, w in ballots]}
        kw = {"m": m, "quota": "droop", "simultaneous": rng.random() < 0.5, "tiebreak": rng.choice(["random", "borda", "first_place"]), "transfer": "fractional"}
        return {"rule": "STV", "kw": kw, "profile": jp, "shape": {"n": n, "names": fam, "wfam": "straddle", "planted": [sorted(S)], "nb": len(ballots), "tight": [k, q]},
                "policies": common.gen_policies(rng, run_seed, kinds=("asc", "desc", "seeded")), "adv_seed": derive(run_seed, "adv") % 10**6}
    return generate_tight(rng, run_seed)


def generate_multiwin(rng, run_seed):
    """a round with several simultaneous winners: u outsiders over the quota (mostly on bullet ballots, so their transfer is
    empty) and coalition member A; the coalition's second member B reaches the quota only through A's surplus, and is the
    lowest candidate without it.  m = u + 3, k = 2, N inside the Droop window for the chosen threshold q."""
    for _ in range(60):
        q = rng.randint(4, 12)
        u = rng.randint(1, 2)
        a = rng.randint(q + 2, 2 * q - 1)
        b = 2 * q - a
        R = rng.randint(q * (u + 2) - (u + 4), q * (u + 2) - 1)
        if b + 1 > q - 1:
            continue
        c, d = rng.randint(b + 1, q - 1), rng.randint(b + 1, q - 1)
        sx = R - c - d
        if sx < u * q:
            continue
        xs = [sx] if u == 1 else None
        if u == 2:
            x1 = rng.randint(q, sx - q)
            xs = [x1, sx - x1]
        m = u + 3
        n = u + 4
        names, fam = G.gen_names(rng, n)
        A, B, C, D = names[:4]
        X = names[4:]
        ballots = [([[A], [B]] + [[z] for z in rng.sample([C, D] + X, rng.randint(0, 2))], Fraction(a)),
                   ([[B], [A]] + [[z] for z in rng.sample([C, D] + X, rng.randint(0, 2))], Fraction(b))]
        for f, w in ((C, c), (D, d)):
            tail = rng.sample([z for z in names if z != f], rng.randint(0, 2)) if rng.random() < 0.5 else []
            ballots.append(([[f]] + [[z] for z in tail], Fraction(w)))
        for x, w in zip(X, xs):
            if rng.random() < 0.7:
                ballots.append(([[x]], Fraction(w)))
            else:
                for part in partition(rng, w, 2):
                    tail = rng.sample([z for z in names if z != x], rng.randint(0, 2))
                    ballots.append(([[x]] + [[z] for z in tail], Fraction(part)))
        rng.shuffle(ballots)
        cands = list(names)
        rng.shuffle(cands)
        jp = {"candidates": cands, "ballots": [{"r": r, "w": canon.fs(w)} for r, w in ballots]}
        kw = {"m": m, "quota": "droop", "simultaneous": rng.random() < 0.8, "tiebreak": rng.choice(["random", "borda", "first_place"]), "transfer": G.wchoice(rng, [("fractional", 3), ("random", 1)])}
        return {"rule": "STV", "kw": kw, "profile": jp, "shape": {"n": n, "names": fam, "wfam": "multiwin", "planted": [sorted([A, B])], "nb": len(ballots), "tight": [2, q]},
                "policies": common.gen_policies(rng, run_seed, kinds=("asc", "desc", "seeded")), "adv_seed": derive(run_seed, "adv") % 10**6}
    return generate_tight(rng, run_seed)


def generate_level(rng, run_seed):
    """m candidates sitting exactly on the quota with EQUAL totals in the same round (each a solid coalition of one quota),
    two of them mirror images of each other (every ballot comes with its image under their swap), the third different:
    a scored tiebreak resolves the three-way tie only partly.  A filler keeps N inside the Droop window of q."""
    for _ in range(40):
        m = rng.randint(3, 4)
        q = rng.randint(4, 12)
        n = m + rng.randint(1, 2)
        names, fam = G.gen_names(rng, n)
        level, fillers = names[:m], names[m:]
        B, C = level[1], level[2]
        sw = {B: C, C: B}
        F = rng.randint(max(1, q - m - 1), q - 1)
        ballots = []

        def tail(excl, k):
            pool = [c for c in names if c not in excl]
            return rng.sample(pool, min(k, len(pool)))

        for x in level:
            if x in (B, C):
                continue
            for w in partition(rng, q, rng.randint(1, 2)):
                ballots.append(([x] + tail([x], rng.randint(0, n - 1)), w))
        for w in partition(rng, q, rng.randint(1, 2)):
            r = [B] + tail([B], rng.randint(0, n - 1))
            ballots.append((r, w))
            ballots.append(([sw.get(c, c) for c in r], w))
        parts = partition(rng, F, min(len(fillers), F))
        for f, w in zip(fillers, parts):
            r = [f] + tail([f], rng.randint(0, 2))
            if rng.random() < 0.5:
                ballots.append((r, w))
            else:
                # keep the mirror symmetry of B and C also in the fillers' tails (only possible for even weights)
                if w % 2 == 0 and w >= 2:
                    ballots.append((r, w // 2))
                    ballots.append(([sw.get(c, c) for c in r], w // 2))
                else:
                    ballots.append(([f], w))
        N = sum(w for _, w in ballots)
        if not ((q - 1) * (m + 1) <= N <= q * (m + 1) - 1):
            continue
        rng.shuffle(ballots)
        cands = list(names)
        rng.shuffle(cands)
        jp = {"candidates": cands, "ballots": [{"r": [[c] for c in r], "w": canon.fs(Fraction(w))} for r, w in ballots]}
        kw = {"m": m, "quota": "droop", "simultaneous": rng.random() < 0.25, "tiebreak": rng.choice(["borda", "borda", "first_place", "random"]), "transfer": "fractional"}
        return {"rule": "STV", "kw": kw, "profile": jp, "shape": {"n": n, "names": fam, "wfam": "level", "planted": [[x] for x in sorted(level)], "nb": len(ballots), "tight": [1, q]},
                "policies": common.gen_policies(rng, run_seed, kinds=("asc", "desc", "seeded")), "adv_seed": derive(run_seed, "adv") % 10**6}
    return generate_tight(rng, run_seed)


def generate(run_seed, tier):
    case = _generate(run_seed, tier)
    vr = stream(run_seed, "voter-sets")
    if vr.random() < 0.25:
        attach_voter_sets(case, vr)
    return case


def _generate(run_seed, tier):
    rng = stream(run_seed, "gen")
    u = rng.random()
    if u >= 0.94:
        return generate_level(rng, run_seed)
    if u < 0.08:
        return generate_straddle(rng, run_seed)
    if u < 0.14:
        return generate_multiwin(rng, run_seed)
    if u < 0.4:
        return generate_tight(rng, run_seed)
    n = G.wchoice(rng, [(2, 1), (3, 3), (4, 4), (5, 4), (6, 2)])
    names, fam = G.gen_names(rng, n)
    transfer = G.wchoice(rng, [("fractional", 3), ("random", 2)])
    intw = transfer == "random"
    rule = G.wchoice(rng, [("STV", 6), ("IRV", 1)])
    m = 1 if rule == "IRV" else rng.randint(1, n)
    ballots = []
    wf = "small" if intw else rng.choice(["small", "mid", "rat"])
    for _ in range(rng.randint(0, 6)):
        k = rng.randint(1, n)
        ballots.append(([[c] for c in rng.sample(names, k)], G.gen_weight(rng, wf)))
    planted = []
    for _ in range(rng.choice([1, 1, 2])):
        size = rng.randint(1, min(3, n))
        S = rng.sample(names, size)
        planted.append(sorted(S))
        others = [c for c in names if c not in S]
        for _ in range(rng.randint(1, 3)):
            order = rng.sample(S, size)
            tail = rng.sample(others, rng.randint(0, len(others))) if others else []
            w = G.gen_weight(rng, wf) * rng.choice([1, 1, 2, 3])
            ballots.append(([[c] for c in order + tail], w))
    rng.shuffle(ballots)
    jp = {"candidates": names, "ballots": [{"r": r, "w": canon.fs(w)} for r, w in ballots]}
    kw = {"m": m, "quota": "droop", "simultaneous": rng.random() < 0.5, "tiebreak": rng.choice(["random", "borda", "first_place", "random"]), "transfer": transfer}
    if rule == "IRV":
        kw = {"quota": "droop", "tiebreak": kw["tiebreak"]}
    case = {"rule": rule, "kw": kw, "profile": jp, "shape": {"n": n, "names": fam, "wfam": wf, "planted": planted, "nb": len(ballots)},
            "policies": common.gen_policies(rng, run_seed, kinds=("asc", "desc", "seeded")), "adv_seed": derive(run_seed, "adv") % 10**6}
    return case


def coalitions(jp, q, m):
    """all subsets S with their solid weight and guaranteed seats"""
    cands = sorted(jp["candidates"])
    out = []
    for size in range(1, len(cands) + 1):
        for S in combinations(cands, size):
            Ss = set(S)
            W = Fraction(0)
            for b in jp["ballots"]:
                r = b.get("r") or []
                if len(r) >= size and all(len(g) == 1 for g in r[:size]) and {g[0] for g in r[:size]} == Ss:
                    W += Fraction(b["w"])
            k = (W / q).__floor__() if q > 0 else 0
            need = min(k, size, m)
            out.append((list(S), W, k, need))
    return out


def attach_voter_sets(case, rng):
    """ballot metadata the count must ignore: voter sets whose size has nothing to do with the ballot's weight"""
    for i, b in enumerate(case["profile"]["ballots"]):
        if rng.random() < 0.6:
            b["vs"] = ["v%d_%d" % (i, j) for j in range(rng.randint(1, 3))]
    return case


def execute(case, trace=False):
    import random as pyrandom

    kw, rule, jp = case["kw"], case["rule"], case["profile"]
    m = kw.get("m", 1)
    violations, probes, faults, policies = [], {}, {}, {}
    logs, digs, shapes = [], [], []
    rounds = draws = 0

    def bump(d, k, v=1):
        if v:
            d[k] = d.get(k, 0) + v

    N = sum((Fraction(b["w"]) for b in jp["ballots"]), Fraction(0))
    q = R.quota_value(N, m, "droop")
    cos = coalitions(jp, q, m)
    n_c = len(jp["candidates"])
    binding = [c for c in cos if c[3] >= 1]
    proper = [c for c in binding if len(c[0]) < n_c]
    bump(faults, "coalitions_with_guarantee", len(binding))
    bump(faults, "coalition_weight_exactly_k_quotas", sum(1 for c in binding if c[1] == c[2] * q))
    bump(faults, "coalition_larger_than_its_seats", sum(1 for c in binding if len(c[0]) > c[3]))
    # adversary schedules: up to 8 binding coalitions chosen from the seed
    arng = pyrandom.Random(case.get("adv_seed", 0))
    adv = list(proper)
    arng.shuffle(adv)
    pols = list(case["policies"]) + [{"kind": "adversary", "S": c[0], "base": arng.choice(["asc", "desc"])} for c in adv[:8]]
    nontrivial = False
    for pol in pols:
        o = common.run_rule(case, pol, log_populations=trace)
        bump(policies, pol["kind"])
        draws += o.seam.draws
        if o.election is None:
            bump(probes, "raised:" + type(o.exc).__name__)
            shapes.append("X")
            continue
        e = o.election
        nr = len(e.election_states) - 1
        rounds += nr
        shapes.append(str(nr))
        if proper and nr >= 2:
            nontrivial = True
        elected = {c for g in e.get_elected() for c in g}
        bump(faults, "adversarial_draws_resolved", o.seam.nontrivial if pol["kind"] == "adversary" else 0)
        for S, W, k, need in binding:
            got = len(elected & set(S))
            if got < need:
                violations.append({
                    "clause": "psc",
                    "message": f"{rule} {kw} under schedule {pol['kind']}{pol.get('S', '')}: coalition {S} is solidly supported by weight {W} >= {k} x threshold {q} "
                               f"but only {got} of its members are elected (need min(k={k}, |S|={len(S)}, m={m}) = {need}); elected {sorted(elected)}",
                    "sig": {"rule": rule, "clause": "psc"},
                })
                break
        digs.append(canon.cstates(e))
        if trace:
            logs.append({"policy": pol, "draws": common.trim_log(o.seam), "states": canon.cstates(e)})
    res = {
        "violations": violations, "probes": probes, "faults": faults, "policies": policies,
        "trace": f"{rule}|{sorted((k, str(v)) for k, v in kw.items())}|{sorted((len(c[0]), c[2]) for c in proper)}|{shapes}",
        "nontrivial": nontrivial, "rounds": rounds, "draws": draws, "digest": digest(digs),
        "summary": {"threshold": q, "binding_coalitions": [[c[0], canon.fs(c[1]), c[2], c[3]] for c in binding][:6], "rounds_per_schedule": shapes},
    }
    if trace:
        res["log"] = logs
    return res
