"""C14 -- ballot generators return well-formed profiles of exactly the requested size.

Seams: every source of randomness the generators read is put behind the run seed: `random`, the global
`numpy.random` state, and -- the easily forgotten one -- OS entropy via `numpy.random.default_rng()`
(patched to a derived PCG64).  The genuine generators are used (seeded mode), so each run is one
exactly repeatable stream.
"""
import math

from ..core import canon, seams
from ..core.seeds import stream, digest, derive
from ..gen import genparams as GP
from . import common

ID = "C14"
RUNS = {"quick": 20000, "thorough": 1000000}
TIME = {"quick": 150, "thorough": 1500}
RULE_TEXT = (
    "case = seeded (generator class incl. exact/MCMC variants, 1-3 blocs, slate sizes 1-3, bloc proportions and cohesion rows on a 1/20 grid incl. 0 and 1 "
    "entries and near-ties, supports incl. zero-support candidates, N in {1,2,3,5,17,100,...}, by_bloc) executed under one seeded stream of "
    "random/numpy.random/default_rng. non-trivial = >=2 blocs or N>=5 with >=3 candidates; distinct = distinct (generator, blocs, slate sizes, "
    "zero-support pattern, cohesion 0/1 pattern, N class, by_bloc) signature"
)
ASSUMPTIONS = [
    "valid parameter sets = what the docstrings allow: proportions/cohesion rows summing to 1 (entries may be 0 or 1), every slate interval with at least one positive support",
    "any valid Huntington-Hill apportionment is accepted (tie order free); float tolerance 1e-9 relative",
    "AlternatingCrossover and CambridgeSampler are documented as possibly incomplete: held only to declared/no-duplicate rules and the bloc-first/opposing-first split",
]
REAL_VS_STUB = "real: votekit generators, numpy/random genuine generators (seeded), apportionment library; patched: numpy.random.default_rng (OS entropy -> derived seed); stub: `ot` import only"


def case_size(case):
    return {"N": case["N"], "blocs": len(case.get("slates", {})), "candidates": sum(len(v) for v in case.get("slates", {}).values()) or len(case.get("candidates", []))}


WALL = 600.0


def gen_bulk(rng):
    """thorough tier only (a case costs about a minute): 2^16..2^18 ballots from one bloc over 8 supported candidates -- the sizes at
    which an implementation may start batching its pre-sampled draws"""
    gen = rng.choice(["slate_PlackettLuce", "slate_PlackettLuce", "name_PlackettLuce", "name_Cumulative"])
    slates = {"A": ["a1", "a2", "a3", "a4"], "B": ["b1", "b2", "b3", "b4"]}
    case = {"gen": gen, "N": rng.choice([65536, 131072, 262144]), "by_bloc": True, "slates": slates, "props": {"A": 1.0, "B": 0.0},
            "cohesion": {"A": {"A": 0.7, "B": 0.3}, "B": {"A": 0.4, "B": 0.6}},
            "intervals": {b: {s: {c: rng.choice([1, 1, 2, 3]) for c in slates[s]} for s in slates} for b in slates}, "decoy": False}
    if gen == "name_Cumulative":
        case["num_votes"] = 3
    return case


def generate(run_seed, tier):
    rng = stream(run_seed, "gen")
    if tier == "thorough" and rng.random() < 0.0001:
        case = gen_bulk(rng)
        case["seed"] = derive(run_seed, "stream") % 10**9
        return case
    case = GP.gen_case(rng)
    case["seed"] = derive(run_seed, "stream") % 10**9
    return case


def shrink_steps(case):
    if case["N"] > 1 and case["gen"] != "ClusteredSpatial":
        for n in (1, 2, 3, case["N"] // 2, case["N"] - 1):
            if 1 <= n < case["N"]:
                yield dict(case, N=n)
    if case.get("by_bloc"):
        yield dict(case, by_bloc=False)
    if "slates" in case:
        blocs = list(case["slates"])
        # drop a candidate from a slate
        for b in blocs:
            if len(case["slates"][b]) > 1:
                for c in case["slates"][b]:
                    ns = dict(case["slates"], **{b: [x for x in case["slates"][b] if x != c]})
                    ni = {vb: {s: {k: v for k, v in iv.items() if k != c} for s, iv in d.items()} for vb, d in case["intervals"].items()}
                    if all(any(v > 0 for v in iv.values()) for d in ni.values() for iv in d.values()):
                        yield dict(case, slates=ns, intervals=ni)
        # supports -> 1
        for vb, d in case["intervals"].items():
            for s, iv in d.items():
                for k, v in iv.items():
                    if v not in (0, 1):
                        ni = {x: {y: dict(z) for y, z in dd.items()} for x, dd in case["intervals"].items()}
                        ni[vb][s][k] = 1
                        yield dict(case, intervals=ni)
    if "candidates" in case and len(case["candidates"]) > 1 and case["gen"] not in ("BallotSimplex_from_point", "ClusteredSpatial"):
        yield dict(case, candidates=case["candidates"][:-1])


# ------------------------------------------------------------------------------------------
def hh_valid(props, alloc, N):
    """is `alloc` a Huntington-Hill apportionment of N by props?  -> (ok, reason)"""
    if sum(alloc) != N:
        return False, f"sizes {alloc} do not add up to {N}"
    pos = [i for i, p in enumerate(props) if p > 0]
    for i, p in enumerate(props):
        if p <= 0 and alloc[i] != 0:
            return False, f"a bloc with proportion 0 received {alloc[i]} ballots"
    if N < len(pos):
        if any(alloc[i] not in (0, 1) for i in pos):
            return False, "fewer ballots than blocs but a bloc has more than one"
        for i in pos:
            for j in pos:
                if alloc[i] == 1 and alloc[j] == 0 and props[i] < props[j] * (1 - 1e-9):
                    return False, f"bloc with proportion {props[i]} got a ballot but a larger bloc ({props[j]}) got none"
        return True, ""
    for i in pos:
        if alloc[i] < 1:
            return False, f"bloc with proportion {props[i]} received no ballot although N >= number of blocs"
    for i in pos:
        if alloc[i] >= 2:
            last = props[i] / math.sqrt(alloc[i] * (alloc[i] - 1))
            for j in pos:
                if j != i:
                    nxt = props[j] / math.sqrt(alloc[j] * (alloc[j] + 1))
                    if last < nxt * (1 - 1e-9):
                        return False, f"sizes {alloc} for proportions {props}: moving a ballot from bloc {i} to bloc {j} has higher Huntington-Hill priority"
    return True, ""


def ballots_of(profile):
    return list(profile.ballots)


def check_profile(case, profile, N, who):
    """well-formedness of one profile -> list of (clause, msg)"""
    bad = []
    gen = case["gen"]
    declared = set(case.get("candidates") or [c for v in case["slates"].values() for c in v])
    tot = 0
    for b in profile.ballots:
        w = b.weight
        if w.denominator != 1 or w <= 0:
            bad.append(("weight", f"{who}: ballot weight {w} is not a positive whole number"))
            break
        tot += int(w)
        if gen == "name_Cumulative":
            if b.ranking:
                bad.append(("cumulative", f"{who}: cumulative ballot carries a ranking"))
                break
            sc = b.scores or {}
            if any(v.denominator != 1 or v <= 0 for v in sc.values()) or sum(sc.values()) != case["num_votes"]:
                bad.append(("cumulative", f"{who}: scores {dict(sc)} do not distribute exactly {case['num_votes']} whole points"))
                break
            if not set(sc) <= declared:
                bad.append(("declared", f"{who}: scores for undeclared candidates {sorted(set(sc) - declared)}"))
                break
            continue
        if not b.ranking:
            if gen in GP.TWO_BLOC:
                continue  # documented as possibly incomplete; an empty ranking breaks no clause of the statement (counted as a probe)
            bad.append(("ranking", f"{who}: ballot without ranking"))
            break
        listed = [c for s in b.ranking for c in s]
        if len(listed) != len(set(listed)):
            bad.append(("duplicate", f"{who}: ballot {canon.cranking(b.ranking)} lists a candidate twice"))
            break
        if not set(listed) <= declared:
            bad.append(("declared", f"{who}: ballot {canon.cranking(b.ranking)} uses undeclared candidates"))
            break
        if any(len(s) == 0 for s in b.ranking):
            bad.append(("ranking", f"{who}: ballot {canon.cranking(b.ranking)} has an empty position"))
            break
    if N is not None and tot != N and not bad:
        bad.append(("size", f"{who}: total weight {tot}, requested {N}"))
    return bad


def check_bloc_ballots(case, bloc, profile):
    """model-specific shape of the ballots of one voter bloc"""
    bad = []
    gen = case["gen"]
    allc = [c for v in case["slates"].values() for c in v]
    if gen in ("name_PlackettLuce", "short_name_PlackettLuce", "name_BradleyTerry", "name_BradleyTerry_MCMC", "name_Cumulative"):
        zeros = set(GP.zero_cands(case, bloc, combined=True))
    else:
        zeros = set(GP.zero_cands(case, bloc, combined=False))
    for b in profile.ballots:
        if gen == "name_Cumulative":
            if set(b.scores or {}) & zeros:
                bad.append(("zero-support", f"bloc {bloc}: points given to zero-support candidates {sorted(set(b.scores) & zeros)}"))
                break
            continue
        r = [sorted(s) for s in b.ranking]
        listed = [c for s in r for c in s]
        if gen in ("name_PlackettLuce", "name_BradleyTerry", "name_BradleyTerry_MCMC", "slate_PlackettLuce", "slate_BradleyTerry", "slate_BradleyTerry_MCMC"):
            if sorted(listed) != sorted(allc):
                bad.append(("complete", f"bloc {bloc}: ballot {r} does not list every candidate {sorted(allc)}"))
                break
            if zeros:
                if set(r[-1]) != zeros or any(set(s) & zeros for s in r[:-1]):
                    bad.append(("zero-support", f"bloc {bloc}: zero-support candidates {sorted(zeros)} must appear only as the final tied group, ballot {r}"))
                    break
                body = r[:-1]
            else:
                body = r
            if any(len(s) != 1 for s in body):
                bad.append(("ties", f"bloc {bloc}: ballot {r} ties supported candidates"))
                break
        elif gen == "short_name_PlackettLuce":
            L = case["ballot_length"]
            if len(listed) != L:
                bad.append(("length", f"bloc {bloc}: ballot {r} lists {len(listed)} candidates, requested length {L}"))
                break
            nz = [c for c in allc if c not in zeros]
            if len(nz) >= L:
                if set(listed) & zeros or any(len(s) != 1 for s in r):
                    bad.append(("zero-support", f"bloc {bloc}: ballot {r} uses zero-support candidates or ties although {len(nz)} supported candidates exist"))
                    break
            else:
                if sorted(c for s in r[:-1] for c in s) != sorted(nz) or not set(r[-1]) <= zeros or any(len(s) != 1 for s in r[:-1]):
                    bad.append(("zero-support", f"bloc {bloc}: ballot {r}: zero-support candidates may only fill the final tied group after all supported ones"))
                    break
    return bad


def first_slate_split(case, bloc, profile):
    own = set(case["slates"][bloc])
    a = b = 0
    for bl in profile.ballots:
        if not bl.ranking:
            return None
        first = next(iter(bl.ranking[0]))
        if first in own:
            a += int(bl.weight)
        else:
            b += int(bl.weight)
    return a, b


def diagnose(case, exc):
    gen = case["gen"]
    if gen in ("Spatial", "ClusteredSpatial") and case.get("defaults"):
        return "default_distribution_kwargs"
    if gen == "BallotSimplex_from_point" and any(v == 0 for v in case["point"].values()):
        return "point_with_zero_support"
    if "slates" in case:
        if gen == "name_BradleyTerry_MCMC" and any(len([c for c, v in GP.combined_interval(case, b).items() if v > 0]) < 2 for b in case["slates"]):
            return "bloc_with_single_supported_candidate"
        if gen == "slate_BradleyTerry_MCMC" and any(case["cohesion"][b][b] == 0 for b in case["slates"]):
            return "cohesion_zero"
        if gen == "slate_BradleyTerry_MCMC" and sum(len(v) for v in case["slates"].values()) - sum(1 for b in case["slates"] for iv in case["intervals"][b].values() for v in iv.values() if v == 0) < 2:
            return "fewer_than_two_supported_candidates"
    return "none"


def execute(case, trace=False):
    violations, probes, faults = [], {}, {}
    gen = case["gen"]
    N = case["N"]

    def bump(d, k, v=1):
        if v:
            d[k] = d.get(k, 0) + v

    def viol(clause, msg, **sig):
        s = {"gen": gen, "clause": clause}
        s.update(sig)
        violations.append({"clause": clause, "message": f"{gen} N={N}: {msg}", "sig": s})

    seams.uninstall()
    seams.seed_real_streams(case["seed"])
    out, exc = None, None
    case = dict(case)  # build() may attach the intervals a from_params construction drew
    case.pop("_drawn_intervals", None)
    with seams.quiet():
        try:
            out = GP.build(case)()
        except seams.WallAlarm:
            raise
        except Exception as ex:
            exc = ex
    blocs = list(case.get("slates", {}))
    bump(faults, "zero_support_candidates", int(any(v == 0 for d in case.get("intervals", {}).values() for iv in d.values() for v in iv.values())))
    bump(faults, "cohesion_0_or_1_entry", int(any(v in (0, 1) for d in case.get("cohesion", {}).values() for v in d.values()) and len(blocs) > 1))
    bump(faults, "proportion_0_or_1_entry", int(any(v in (0, 1) for v in case.get("props", {}).values()) and len(blocs) > 1))
    bump(faults, "N_smaller_than_blocs", int(bool(blocs) and N < len(blocs)))
    bump(faults, "N_equals_1", int(N == 1))
    dig = None
    if exc is not None:
        bump(probes, "raised:" + type(exc).__name__)
        viol("generator-raised", f"{type(exc).__name__}({str(exc)[:100]}) at {seams.innermost_votekit_frame(exc)}", exc=type(exc).__name__,
             frame=seams.innermost_votekit_frame(exc), cond=diagnose(case, exc))
    else:
        by = None
        prof = out
        if gen in ("Spatial", "ClusteredSpatial"):
            prof = out[0]
        elif isinstance(out, tuple):
            by, prof = out
        for clause, msg in check_profile(case, prof, N, "aggregate"):
            viol(clause, msg)
        if gen in GP.NO_BLOCS and not violations:
            allc = sorted(case["candidates"])
            for b in prof.ballots:
                if sorted(c for s in b.ranking for c in s) != allc or any(len(s) != 1 for s in b.ranking):
                    viol("complete", f"ballot {canon.cranking(b.ranking)} is not a complete strict ranking of {allc}")
                    break
        if by is not None and not violations:
            bump(probes, "by_bloc_checked")
            if sorted(by) != sorted(blocs):
                viol("by-bloc-keys", f"per-bloc profiles for {sorted(by)}, blocs are {sorted(blocs)}")
            else:
                tot = {}
                for b in blocs:
                    for clause, msg in check_profile(case, by[b], None, f"bloc {b}"):
                        viol(clause, msg)
                    for k, w in canon.pmap(by[b]).items():
                        tot[k] = tot.get(k, 0) + w
                if tot != canon.pmap(prof):
                    viol("by-bloc-sum", "per-bloc profiles do not add up to the aggregate profile")
                if not violations:
                    sizes = [int(by[b].total_ballot_wt) for b in blocs]
                    props = [case["props"][b] for b in blocs]
                    if gen in GP.TWO_BLOC:
                        alloc, vprops = [], []
                        for b in blocs:
                            sp = first_slate_split(case, b, by[b])
                            if sp is None:
                                alloc = None
                                bump(probes, "empty_ballots_split_unjudged")
                                break
                            coh = case["cohesion"][b][b]
                            alloc += list(sp)
                            vprops += [coh * case["props"][b], (1 - coh) * case["props"][b]]
                        ok, why = hh_valid(vprops, alloc, N) if alloc is not None else (True, "")
                        if not ok:
                            viol("apportionment", f"bloc-first/opposing-first split {dict(zip([(b, t) for b in blocs for t in ('bloc', 'cross')], alloc))} is not the Huntington-Hill apportionment by {vprops}: {why}",
                                 cond="N_smaller_than_number_of_voter_types" if N < len(vprops) else "none")
                    else:
                        ok, why = hh_valid(props, sizes, N)
                        if not ok:
                            viol("apportionment", f"bloc sizes {dict(zip(blocs, sizes))} are not the Huntington-Hill apportionment of {N} by {props}: {why}",
                                 cond="N_smaller_than_number_of_blocs" if N < len(props) else "none")
                    for b in blocs:
                        if gen not in GP.TWO_BLOC:
                            for clause, msg in check_bloc_ballots(case, b, by[b]):
                                viol(clause, msg)
        dig = canon.cpmap(prof)
    nb = len(blocs)
    ncand = sum(len(v) for v in case.get("slates", {}).values()) or len(case.get("candidates", []))
    nontrivial = nb >= 2 or (N >= 5 and ncand >= 3)
    zpat = tuple(sorted(sum(1 for v in iv.values() if v == 0) for d in case.get("intervals", {}).values() for iv in d.values()))
    cpat = tuple(sorted(v for d in case.get("cohesion", {}).values() for v in d.values() if v in (0, 1)))
    res = {
        "violations": violations, "probes": probes, "faults": faults, "policies": {"seeded(genuine generators)": 1},
        "trace": f"{gen}|{'fp' if case.get('from_params') else ''}|{nb}|{sorted(len(v) for v in case.get('slates', {}).values())}|{zpat}|{cpat}|{'1' if N == 1 else 's' if N < 5 else 'm' if N < 50 else 'l'}|{case['by_bloc']}|{case.get('ballot_length')}|{case.get('num_votes')}|{case.get('defaults')}",
        "nontrivial": nontrivial, "rounds": 1, "draws": 0, "digest": digest([dig, type(exc).__name__ if exc else None]),
        "summary": {"generator": gen, "N": N, "raised": type(exc).__name__ if exc else None},
    }
    if trace:
        res["log"] = [{"stream_seed": case["seed"], "profile": dig, "exception": repr(exc) if exc else None}]
    return res
