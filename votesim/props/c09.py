"""C09 -- round-by-round queries on a finished election are consistent and pure.

Simulated system: 1-3 finished election objects built from the *same* profile object (shared mutable
state behind a query API) as servers; a client issues a seeded history of operations with in-range,
negative and out-of-range round indices (the injected faults), interleaved between the objects.
Model: built once from a canonical snapshot of `election_states`; checked after every operation,
together with purity of *all* objects.
"""
from fractions import Fraction

from ..core import canon, seams
from ..core.seeds import stream, digest
from ..core.shrink import ddmin_list
from ..gen import profiles as G
from . import common

ID = "C09"
RUNS = {"quick": 7000, "thorough": 300000}
TIME = {"quick": 150, "thorough": 1500}
OPS = ("get_profile", "get_step", "get_elected", "get_eliminated", "get_remaining", "get_ranking", "get_status_df", "len", "str")
REPLAYING = ("get_profile", "get_step")
RANKED_RULES = ("STV", "STV", "IRV", "SequentialRCV", "Plurality", "SNTV", "Borda", "TopTwo", "Alaska", "DominatingSets", "CondoBorda",
                "RandomDictator", "BoostedRandomDictator", "PluralityVeto")
RULE_TEXT = (
    "case = seeded (profile, 1-3 elections of any rule built from the same profile object, one schedule, history of 1-12 queries with round indices "
    "in [-R-3, R+2]); after every operation the answer is compared with a model built from the initial snapshot and all objects are checked unchanged. "
    "non-trivial = history has >=3 operations incl. a replaying query on an election with >=2 rounds, or an out-of-range/negative index; distinct = distinct "
    "(rules, configs, rounds, op/index sequence) signature"
)
ASSUMPTIONS = [
    "an election 'involved a random choice' iff its construction met a choice point with >=2 legal outcomes (seam counter); for those only the non-replaying queries are asserted and exceptions from get_profile/get_step are tolerated and counted",
    "answers are compared as canonical values (groups as sorted lists, profiles as ranking->weight maps); order inside a reported tied group is free",
]
case_size = common.case_size


def generate_long(rng, run_seed):
    """an election with many rounds (17-24 candidates): anything keyed to the number of rounds -- caches, checkpoints,
    chunked replays -- only shows here"""
    n = rng.randint(17, 24)
    names = ["K%02d" % i for i in range(n)]
    rng.shuffle(names)
    ballots = []
    ws = rng.sample(range(1, 400), min(60, 399))
    for i in range(rng.randint(n, 40)):
        k = rng.randint(max(1, n - 6), n) if rng.random() < 0.7 else rng.randint(1, 4)
        ballots.append({"r": [[c] for c in rng.sample(names, k)], "w": str(ws[i % len(ws)])})
    # every candidate gets a distinct-ish first-place pile so that most rounds are eliminations without ties
    for j, c in enumerate(names):
        ballots.append({"r": [[c]] + [[x] for x in rng.sample([y for y in names if y != c], rng.randint(0, 5))], "w": str(401 + 7 * j)})
    rule = rng.choice(["IRV", "STV", "STV", "SequentialRCV", "Alaska"])
    kw = {"quota": "droop", "tiebreak": rng.choice([None, "borda"])}
    if rule in ("STV", "SequentialRCV"):
        kw.update(m=rng.randint(1, 3), simultaneous=rng.random() < 0.5)
    if rule == "STV":
        kw["transfer"] = "fractional"
    if rule == "Alaska":
        m1 = rng.randint(17, n)
        kw.update(m_1=m1, m_2=rng.randint(1, 2), transfer="fractional", simultaneous=True)
    ops = []
    for _ in range(rng.randint(2, 6)):
        op = G.wchoice(rng, [("get_profile", 6), ("get_step", 3), ("get_ranking", 1), ("get_status_df", 1)])
        # q % 4 != 3 -> in range; spread the requests over late rounds too
        ops.append({"obj": 0, "op": op, "q": 4 * rng.randrange(0, 64) + rng.choice([0, 1, 2]), "default": rng.random() < 0.2})
    return {"profile": {"candidates": names, "ballots": ballots}, "objs": [{"rule": rule, "kw": kw}], "ops": ops, "policies": [{"kind": "asc"}], "long": True}


def generate_twin_ties(rng, run_seed):
    """two STV-family elections over the same candidates whose later-round elimination tie on the same set is resolved
    (deterministically, by initial first-place tallies) in opposite ways; the first is queried after the second was built"""
    names = rng.sample(G.NAME_FAMILIES[rng.choice(["plain", "disorder", "nested"])][:6], 4)
    W, X, Y, Z = names
    a = Fraction(rng.randint(1, 4))
    e = Fraction(1, rng.choice([3, 10, 10**20]))
    bs = [([[W]], 3 * a / 2), ([[X]] + ([[W]] if rng.random() < 0.5 else []), a), ([[Y]], a + e), ([[Z], [X]], e)]
    rng.shuffle(bs)
    cands = list(names)
    rng.shuffle(cands)
    rule = rng.choice(["IRV", "STV", "SequentialRCV"])
    kw = {"quota": "droop", "tiebreak": None}
    if rule != "IRV":
        kw.update(m=1, simultaneous=True)
    if rule == "STV":
        kw["transfer"] = "fractional"
    ops = []
    for _ in range(rng.randint(2, 5)):
        ops.append({"obj": rng.choice([0, 0, 1]), "op": rng.choice(REPLAYING), "q": 4 * rng.randrange(0, 16) + rng.choice([0, 1, 2]), "default": rng.random() < 0.3})
    return {"profile": {"candidates": cands, "ballots": [{"r": r, "w": canon.fs(w)} for r, w in bs]},
            "objs": [{"rule": rule, "kw": dict(kw)}, {"rule": rule, "kw": dict(kw), "alt": True}], "swap": [X, Y], "ops": ops, "policies": [{"kind": "asc"}]}


def generate(run_seed, tier):
    rng = stream(run_seed, "gen")
    u = rng.random()
    if u < 0.03:
        return generate_long(rng, run_seed)
    if u < 0.06:
        return generate_twin_ties(rng, run_seed)
    fam = G.wchoice(rng, [("ranked", 8), ("score", 2)])
    nobj = G.wchoice(rng, [(1, 5), (2, 3), (3, 1)])
    objs = []
    if fam == "score":
        first = G.gen_rule_case(rng, rules=G.SCORE_RULES)
        jp = first["profile"]
        objs.append({"rule": first["rule"], "kw": first["kw"]})
        for _ in range(nobj - 1):
            # same class, other tiebreak: the limits must still accept the shared profile
            objs.append({"rule": first["rule"], "kw": dict(first["kw"], tiebreak="random")})
    else:
        rules = [rng.choice(RANKED_RULES) for _ in range(nobj)]
        need_int = any(r == "PluralityVeto" for r in rules)
        jp, shape = G.gen_ranked_profile(rng, allow_ties=False, int_weights=need_int or rng.random() < 0.3, min_c=2 if "TopTwo" in rules else 1, unit_cap=True)
        intw = all(Fraction(b["w"]).denominator == 1 for b in jp["ballots"])
        n = len(jp["candidates"])
        for r in rules:
            one = G.gen_rule_case(rng, rules=(r,))  # only for a plausible kw; profile replaced below
            kw = one["kw"]
            for key in ("m", "m_1", "m_2"):
                if key in kw:
                    kw[key] = rng.randint(1, n)
            if "m_1" in kw and kw["m_2"] > kw["m_1"]:
                kw["m_2"] = rng.randint(1, kw["m_1"])
            if kw.get("transfer") == "random" and not intw:
                kw["transfer"] = "fractional"
            if r == "PluralityVeto":
                kw["tiebreak"] = rng.choice([None, "random"])
            if rng.random() < 0.6 and "tiebreak" in kw:
                kw["tiebreak"] = rng.choice(["borda", "first_place", "random"]) if r not in ("PluralityVeto",) else "random"
            objs.append({"rule": r, "kw": kw})
    swap = None
    if len(objs) >= 2 and rng.random() < 0.5 and len(jp["candidates"]) >= 2:
        swap = rng.sample(jp["candidates"], 2)
        for ob in objs[1:]:
            if rng.random() < 0.6:
                ob["alt"] = True
    nops = rng.randint(1, 12)
    ops = []
    for _ in range(nops):
        op = G.wchoice(rng, [("get_profile", 5), ("get_step", 3), ("get_elected", 2), ("get_eliminated", 2), ("get_remaining", 2), ("get_ranking", 2),
                             ("get_status_df", 2), ("len", 1), ("str", 1)])
        ops.append({"obj": rng.randrange(nobj), "op": op, "q": rng.randrange(64), "default": rng.random() < 0.15})
        if ops and rng.random() < 0.2:
            ops.append(dict(rng.choice(ops)))  # repetition
        if op in REPLAYING and rng.random() < 0.3:
            # order-sensitive pairs: a replaying query immediately followed by one for the first / the last round
            ops.append({"obj": ops[-1]["obj"], "op": rng.choice(REPLAYING), "q": 0, "default": False, "fixed": rng.choice(["first", "first", "last"])})
    pol = rng.choice(common.gen_policies(rng, run_seed))
    case = {"profile": jp, "objs": objs, "ops": ops[:14], "policies": [pol]}
    if swap:
        case["swap"] = swap
    return case


def shrink_steps(case):
    ops = case["ops"]
    n = len(ops)
    if n >= 4:
        yield dict(case, ops=ops[: n // 2])
        yield dict(case, ops=ops[n // 2 :])
    for i in range(n):
        yield dict(case, ops=ops[:i] + ops[i + 1 :])
    objs = case["objs"]
    if len(objs) > 1:
        for i in range(len(objs)):
            keep = [j for j in range(len(objs)) if j != i]
            remap = {j: k for k, j in enumerate(keep)}
            nops = [dict(o, obj=remap[o["obj"]]) for o in ops if o["obj"] in remap]
            if nops:
                yield dict(case, objs=[objs[j] for j in keep], ops=nops)
    for jp in G.shrink_profile_steps(case["profile"]):
        n_c = len(jp["candidates"])
        if n_c == 0:
            continue
        nobjs = []
        ok = True
        for ob in objs:
            kw = dict(ob["kw"])
            for key in ("m", "m_1", "m_2"):
                if key in kw and kw[key] > n_c:
                    if ob["rule"] in ("Cumulative", "Limited", "BlocPlurality"):
                        ok = False
                    kw[key] = n_c
            if "m_1" in kw and kw["m_2"] > kw["m_1"]:
                kw["m_2"] = kw["m_1"]
            if ob["rule"] == "TopTwo" and n_c < 2:
                ok = False
            nobjs.append({"rule": ob["rule"], "kw": kw})
        if ok:
            yield dict(case, profile=jp, objs=nobjs)
    for i, ob in enumerate(objs):
        for key, dv in (("quota", "droop"), ("simultaneous", True), ("transfer", "fractional")):
            if key in ob["kw"] and ob["kw"][key] != dv:
                yield dict(case, objs=objs[:i] + [{"rule": ob["rule"], "kw": dict(ob["kw"], **{key: dv})}] + objs[i + 1 :])
    pol = case["policies"][0]
    if pol["kind"] != "asc":
        yield dict(case, policies=[{"kind": "asc"}])


class Model:
    def __init__(self, e, cands):
        self.S0 = canon.cstates(e)
        self.n = len(self.S0)
        self.cands = list(cands)

    def idx(self, r):
        if r < -self.n or r > self.n - 1:
            return None
        return r % self.n

    def elected(self, r):
        return [g for s in self.S0[: r + 1] for g in s["elected"]]

    def eliminated(self, r):
        return [g for s in self.S0[r::-1] for g in s["eliminated"][::-1]]

    def remaining(self, r):
        return self.S0[r]["remaining"]

    def ranking(self, r):
        return self.elected(r) + self.remaining(r) + self.eliminated(r)

    def status(self, r):
        st = {c: ("Remaining", 0) for c in self.cands}
        for i in range(1, r + 1):
            s = self.S0[i]
            for g in s["elected"]:
                for c in g:
                    st[c] = ("Elected", i)
            for g in s["eliminated"]:
                for c in g:
                    st[c] = ("Eliminated", i)
            for g in s["remaining"]:
                for c in g:
                    st[c] = (st[c][0], i)
        return st


def build_objects(case, pol):
    """-> list of (election|None, exc, nontrivial_draws), shared profile, seam (left installed by caller)"""
    import votekit.elections as E

    p = canon.build_profile(case["profile"])
    # objects marked "alt" are built from a second profile: the same ballots with two candidates' names exchanged.  Same
    # candidate set, same tied sets -- resolved the other way round.  Anything shared between election objects (class-level
    # caches, module state) then shows when the first object is queried afterwards.
    p_alt = None
    if any(ob.get("alt") for ob in case["objs"]) and len(case["profile"]["candidates"]) >= 2:
        a, b = case["profile"]["candidates"][:2] if "swap" not in case else case["swap"]
        sw = {a: b, b: a}
        jp2 = {"candidates": list(case["profile"]["candidates"]),
               "ballots": [dict(bl, r=None if bl.get("r") is None else [[sw.get(c, c) for c in g] for g in bl["r"]],
                                **({"s": {sw.get(c, c): v for c, v in bl["s"].items()}} if bl.get("s") else {})) for bl in case["profile"]["ballots"]]}
        p_alt = canon.build_profile(jp2)
    out = []
    seam = seams.ACTIVE
    for ob in case["objs"]:
        before = seam.nontrivial
        kw = dict(ob["kw"])
        if "transfer" in kw:
            t = kw.pop("transfer")
            if t is not None:
                kw["transfer"] = {"fractional": E.fractional_transfer, "random": E.random_transfer}[t]
        try:
            e = getattr(E, ob["rule"])(p_alt if (ob.get("alt") and p_alt is not None) else p, **kw)
            out.append((e, None, seam.nontrivial - before))
        except seams.WallAlarm:
            raise
        except BaseException as ex:
            out.append((None, ex, seam.nontrivial - before))
    return out, p


def execute(case, trace=False):
    pol = case["policies"][0]
    violations, probes, faults = [], {}, {}
    policies = {pol["kind"]: 1}
    oplog = []

    def bump(d, k, v=1):
        if v:
            d[k] = d.get(k, 0) + v

    def viol(clause, msg, rule, **extra):
        sig = {"rule": rule, "clause": clause}
        sig.update(extra)
        violations.append({"clause": clause, "message": msg, "sig": sig})

    del seams.LIVE[:]
    with seams.scheduled(pol, log_populations=trace) as seam, seams.quiet():
        objs, p = build_objects(case, pol)
        cands = list(p.candidates)
        models = [Model(e, cands) if e is not None else None for e, _, _ in objs]
        for (e, ex, nd), ob in zip(objs, case["objs"]):
            bump(probes, "constructed" if e is not None else "construction_raised:" + type(ex).__name__)
            if e is not None:
                bump(probes, "draw_free_elections" if nd == 0 else "elections_with_random_choice")
        memo = {}
        rounds = 0
        max_rounds = 0
        for k, op in enumerate(case["ops"]):
            i = op["obj"]
            e, _, nd = objs[i]
            if e is None:
                continue
            rule = case["objs"][i]["rule"]
            M = models[i]
            R = M.n - 1
            max_rounds = max(max_rounds, R)
            # 3 in 4 requests are in range (non-negative or negative form); 1 in 4 is an out-of-range fault
            q = op["q"]
            if op.get("fixed") == "first":
                r = 0
            elif op.get("fixed") == "last":
                r = M.n - 1
            elif q % 4 != 3:
                r = -M.n + ((q // 4) % (2 * M.n))
            else:
                r = [-M.n - 1, -M.n - 2, M.n, M.n + 1][(q // 4) % 4]
            name = op["op"]
            use_default = op.get("default") and name not in ("len", "str")
            ri = M.idx(-1 if use_default else r)
            if ri is None:
                bump(faults, "out_of_range_index")
            elif r < 0 and not use_default:
                bump(faults, "negative_index")
            draw_free = nd == 0
            args = () if use_default else (r,)
            ans, exc = None, None
            try:
                if name == "len":
                    ans = len(e)
                elif name == "str":
                    ans = str(e)
                else:
                    ans = getattr(e, name)(*args)
            except seams.WallAlarm:
                raise
            except BaseException as x:
                exc = x
            rounds += 1
            desc = f"op#{k} {rule}[{i}].{name}({'' if use_default else r}) on {R} rounds"
            oplog.append([i, name, None if use_default else r, type(exc).__name__ if exc else "ok"])
            # ---- purity of every object after every operation
            for j, (ej, _, _) in enumerate(objs):
                if ej is not None and canon.cstates(ej) != models[j].S0:
                    viol("impure", f"{desc}: recorded rounds of object {j} ({case['objs'][j]['rule']}) changed", case["objs"][j]["rule"], op=name)
                    models[j].S0 = canon.cstates(ej)  # report once
            tolerated = (not draw_free) and name in REPLAYING
            if name in ("len", "str"):
                if exc is not None:
                    viol("query-raised", f"{desc}: {type(exc).__name__}({str(exc)[:80]})", rule, op=name, exc=type(exc).__name__)
                elif name == "len" and ans != R:
                    viol("len", f"{desc}: len is {ans}, recorded rounds {R}", rule, op=name)
                key = (i, name)
                if exc is None:
                    if key in memo and memo[key] != ans:
                        viol("unstable", f"{desc}: answer differs from the earlier identical query", rule, op=name)
                    memo[key] = ans
                continue
            if ri is None:
                if not isinstance(exc, IndexError):
                    if tolerated and exc is not None:
                        bump(probes, "tolerated_replay_exception")
                    else:
                        viol("index-error", f"{desc}: out-of-range index gave {type(exc).__name__ if exc else 'an answer'} instead of IndexError", rule, op=name)
                continue
            if exc is not None:
                if tolerated:
                    bump(probes, "tolerated_replay_exception")
                else:
                    viol("query-raised", f"{desc}: {type(exc).__name__}({str(exc)[:80]}) at {seams.innermost_votekit_frame(exc)}", rule, op=name, exc=type(exc).__name__)
                continue
            # ---- answers
            cans = None
            if name == "get_elected":
                cans = canon.cgroups(ans)
                if cans != M.elected(ri):
                    viol("answer", f"{desc}: {cans} but records up to round {ri} give {M.elected(ri)}", rule, op=name)
            elif name == "get_eliminated":
                cans = canon.cgroups(ans)
                if cans != M.eliminated(ri):
                    viol("answer", f"{desc}: {cans} but records up to round {ri} give {M.eliminated(ri)}", rule, op=name)
            elif name == "get_remaining":
                cans = canon.cgroups(ans)
                if cans != M.remaining(ri):
                    viol("answer", f"{desc}: {cans} but round {ri} records {M.remaining(ri)}", rule, op=name)
            elif name == "get_ranking":
                cans = canon.cgroups(ans)
                if cans != M.ranking(ri):
                    viol("answer", f"{desc}: {cans} but records give {M.ranking(ri)}", rule, op=name)
            elif name == "get_status_df":
                got = {c: (row["Status"], int(row["Round"])) for c, row in ans.iterrows()}
                order = list(ans.index)
                cans = [sorted(got.items()), None]
                exp = M.status(ri)
                if got != exp:
                    viol("answer", f"{desc}: status table {got} but records give {exp}", rule, op=name)
                else:
                    pos = 0
                    for g in M.ranking(ri):
                        if sorted(order[pos : pos + len(g)]) != g:
                            viol("answer", f"{desc}: status table order {order} does not follow the ranking {M.ranking(ri)}", rule, op=name)
                            break
                        pos += len(g)
            elif name in ("get_profile", "get_step"):
                prof = ans if name == "get_profile" else ans[0]
                cans = [sorted(prof.candidates), canon.cpmap(prof)]
                if name == "get_step":
                    if canon.cstate(ans[1]) != M.S0[ri]:
                        viol("answer", f"{desc}: returned state {canon.cstate(ans[1])} is not the recorded state of that round {M.S0[ri]}", rule, op=name)
                if draw_free:
                    rem = sorted(c for g in M.remaining(ri) for c in g)
                    if sorted(prof.candidates) != rem:
                        viol("profile-candidates", f"{desc}: profile lists {sorted(prof.candidates)} but candidates remaining after round {ri} are {rem}", rule, op=name)
                    elif e.score_function is not None:
                        try:
                            sc = canon.cscores(e.score_function(prof))
                        except Exception as x:
                            sc = f"{type(x).__name__}"
                        if sc != M.S0[ri]["scores"]:
                            viol("profile-rescoring", f"{desc}: re-scoring the returned profile gives {sc} but round {ri} recorded {M.S0[ri]['scores']}", rule, op=name)
                else:
                    bump(probes, "replaying_query_on_random_election_unasserted")
            key = (i, name, ri)
            if not (tolerated):
                if key in memo and memo[key] != cans:
                    viol("unstable", f"{desc}: answer differs from the earlier identical query", rule, op=name)
                memo[key] = cans
        draws = seam.draws
        log = common.trim_log(seam) if trace else None
    nrep = sum(1 for o in oplog if o[1] in REPLAYING)
    nontrivial = (len(oplog) >= 3 and nrep >= 1 and max_rounds >= 2) or faults.get("out_of_range_index", 0) + faults.get("negative_index", 0) > 0
    res = {
        "violations": violations, "probes": probes, "faults": faults, "policies": policies,
        "trace": f"{[(o['rule'], sorted((k, str(v)) for k, v in o['kw'].items())) for o in case['objs']]}|{[m.n - 1 if m else None for m in models]}|{oplog}",
        "nontrivial": nontrivial, "rounds": rounds, "draws": draws,
        "digest": digest([[m.S0 if m else None for m in models], oplog, [v["sig"] for v in violations]]),
        "summary": {"history": oplog, "rounds_per_object": [m.n - 1 if m else None for m in models]},
    }
    if trace:
        res["log"] = [{"policy": pol, "history": oplog, "draws": log, "states": [m.S0 if m else None for m in models]}]
    return res
