"""Shared pieces of the election-side property engines."""
from ..core import canon, seams
from ..core.seeds import derive, digest
from ..gen import profiles as G


def gen_policies(rng, run_seed, kinds=("asc", "desc", "keyed", "seeded")):
    out = []
    for k in kinds:
        if k == "keyed":
            out.append({"kind": "keyed", "key": derive(run_seed, "key") % 10**6})
        elif k == "seeded":
            out.append({"kind": "seeded", "seed": derive(run_seed, "sched") % 10**9})
        elif k == "rot":
            out.append({"kind": "rot", "k": 1 + derive(run_seed, "rot") % 3})
        else:
            out.append({"kind": k})
    return out


class Outcome:
    """result of constructing one election under one schedule"""

    __slots__ = ("election", "profile", "exc", "seam", "printed", "live", "budget")

    def __init__(self):
        self.election = None
        self.profile = None
        self.exc = None
        self.seam = None
        self.printed = ""
        self.live = []
        self.budget = False


def run_rule(case, policy, log_populations=True):
    """construct case['rule'] on the real code under `policy`; never raises (except WallAlarm)"""
    o = Outcome()
    del seams.LIVE[:]
    with seams.scheduled(policy, log_populations=log_populations) as seam, seams.quiet() as buf:
        o.seam = seam
        try:
            o.election, o.profile = G.build_election(case)
        except seams.WallAlarm:
            raise
        except seams.RoundBudgetExceeded as ex:
            o.exc = ex
            o.budget = True
        except Exception as ex:
            o.exc = ex
    o.printed = buf.getvalue()
    o.live = list(seams.LIVE)
    del seams.LIVE[:]
    return o


def exc_sig(ex):
    return {"exc": type(ex).__name__, "frame": seams.innermost_votekit_frame(ex)}


def log_outcomes(seam):
    """draw outcomes for digests: sorted, because the order in which the code under test visits *simultaneous*
    choice points (e.g. the transfers of candidates elected together) follows set iteration order"""
    import json

    return sorted(([e["site"], e["kind"], e["k"], e["out"], e["ctx"]] for e in seam.log), key=lambda x: json.dumps(x, sort_keys=True, default=str))


def trim_log(seam, limit=40):
    out = []
    for e in seam.log[:limit]:
        d = dict(e)
        if "pop" in d and isinstance(d["pop"], list) and len(d["pop"]) > 12:
            d["pop"] = d["pop"][:12] + ["...(%d)" % len(d["pop"])]
        if isinstance(d.get("out"), list) and len(d["out"]) > 12:
            d["out"] = d["out"][:12] + ["...(%d)" % len(d["out"])]
        out.append(d)
    return out


def policy_steps(case):
    """reduce the list of schedules of a case"""
    pols = case.get("policies", [])
    if len(pols) > 1:
        for i in range(len(pols)):
            yield dict(case, policies=[pols[i]])
    for i, p in enumerate(pols):
        if p["kind"] not in ("asc",) and p["kind"] != "adversary":
            yield dict(case, policies=pols[:i] + [{"kind": "asc"}] + pols[i + 1 :])


def rule_case_steps(case):
    yield from policy_steps(case)
    yield from G.shrink_rule_case_steps(case)


def case_size(case):
    jp = case.get("profile") or {}
    return {"candidates": len(jp.get("candidates") or []), "ballots": len(jp.get("ballots") or []),
            "policies": len(case.get("policies", [])), "ops": len(case.get("ops", []))}
