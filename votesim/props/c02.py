"""C02 -- each STV/IRV/SequentialRCV round is a legal step of the documented count.

Simulated system: the round-stepped count.  The recorder (wrapped `_run_step`) yields the real
(input profile, previous state, output profile) of every stored round; the random seam resolves and
logs every tiebreak / random-transfer draw.  Oracle: lock-step refinement against RefSTV.
"""
from ..core import canon, seams
from ..core.seeds import stream, digest
from ..gen import profiles as G
from ..ref import stv as R
from . import common

ID = "C02"
RUNS = {"quick": 9000, "thorough": 400000}
TIME = {"quick": 150, "thorough": 1500}
RULE_TEXT = (
    "case = seeded (profile, STV|IRV|SequentialRCV, m, quota, simultaneous, transfer, tiebreak) executed under 4 schedules "
    "(asc, desc, keyed, seeded) of the random seam; every recorded round compared with RefSTV. non-trivial = at least one "
    "completed round beyond a bare single election/elimination (>=2 rounds, or a tie, exact-threshold, exhaustion, default "
    "election, multi-election or random transfer was met); distinct = distinct (rule, config, per-schedule sequence of round kinds, probes) signature"
)
ASSUMPTIONS = [
    "profiles bounded to <=7 candidates, <=12 distinct ballots",
    "random-transfer steps are checked against the draw logged at the random.sample seam (population = the winner's transferable unit ballots, k = surplus)",
    "runs that raise are judged by C01; their rounds recorded before the exception are still compared",
]
case_size = common.case_size
shrink_steps = common.rule_case_steps


def gen_eps_elimination_tie(rng):
    """a later-round tie for last place between candidates whose INITIAL first-place tallies differ by 1e-20:
    only the one with the lower initial tally may be eliminated, and no random choice is involved"""
    from fractions import Fraction

    names = rng.sample(G.NAME_FAMILIES[rng.choice(["plain", "disorder", "nested"])][:6], 4)
    W, X, Y, Z = names
    a = Fraction(rng.randint(1, 4))
    e = Fraction(1, 10**20)
    bs = [([[W]], 3 * a / 2), ([[X]] + ([[W]] if rng.random() < 0.5 else []), a), ([[Y]], a + e), ([[Z], [X]], e)]
    rng.shuffle(bs)
    cands = list(names)
    rng.shuffle(cands)
    rule = rng.choice(["STV", "IRV", "SequentialRCV"])
    kw = {"quota": "droop", "tiebreak": rng.choice([None, "random", "borda", "first_place"])}
    if rule != "IRV":
        kw.update(m=1, simultaneous=rng.random() < 0.5)
    if rule == "STV":
        kw["transfer"] = "fractional"
    return {"rule": rule, "kw": kw, "profile": {"candidates": cands, "ballots": [{"r": r, "w": canon.fs(w)} for r, w in bs]},
            "shape": {"n": 4, "nb": 4, "law": "eps-elimination-tie", "wfam": "rat", "names": "mixed", "ghosts": 0, "zero_w": False, "eps": True}}


def generate(run_seed, tier):
    rng = stream(run_seed, "gen")
    if rng.random() < 0.02:
        case = gen_eps_elimination_tie(rng)
        case["policies"] = common.gen_policies(rng, run_seed)
        return case
    u = rng.random()
    case = G.gen_rule_case(rng, rules=("STV", "STV", "STV", "IRV", "SequentialRCV", "Alaska"), max_c=6 if u < 0.9 else 9 if u < 0.985 else 14, tie_bias=0.25)
    case["policies"] = common.gen_policies(rng, run_seed)
    return case


def _kind(case):
    if case["rule"] == "SequentialRCV":
        return "seq"
    if case["rule"] in ("STV", "Alaska") and case["kw"].get("transfer") == "random":
        return "random"
    return "frac"


def execute(case, trace=False):
    kw = case["kw"]
    m = kw.get("m", kw.get("m_2", 1))
    quota = kw.get("quota", "droop")
    inner_rule = "STV" if case["rule"] == "Alaska" else case["rule"]  # Alaska: the STV stage it runs internally is checked
    sim = kw.get("simultaneous", True)
    kind = _kind(case)
    violations, probes, faults, policies = [], {}, {}, {}
    traces, digs, logs = [], [], []
    rounds = draws = 0
    nontrivial = False

    def bump(d, k, v=1):
        if v:
            d[k] = d.get(k, 0) + v

    for pol in case["policies"]:
        o = common.run_rule(case, pol)
        bump(policies, pol["kind"])
        draws += o.seam.draws
        e = o.election
        if e is None:
            bump(probes, "raised:" + type(o.exc).__name__)
        if e is None or case["rule"] == "Alaska":
            # compare the rounds completed before the exception / the inner STV stage of Alaska
            cands = [x for x in o.live if type(x).__name__ == inner_rule]
            e = cands[0] if cands else None
        if e is None:
            traces.append("exc")
            digs.append(["exc", type(o.exc).__name__])
            continue
        rec = seams.recorded(e)
        p = e._profile
        mm, info = R.check_run(e, p, m, quota, sim, kind, kw.get("tiebreak"), rec, o.seam.log)
        rounds += info["rounds"]
        for k in ("elim_ties", "top_ties", "default", "exact_thr", "random_transfers", "exhausted", "multi_elect"):
            bump(faults, k, info[k])
        bump(faults, "overflow", int(info["overflow"]))
        bump(faults, "rational_weights", int(case["shape"].get("wfam") == "rat"))
        bump(faults, "zero_vote_candidates", int(case["shape"].get("ghosts", 0) > 0))
        bump(faults, "zero_weight_ballot", int(bool(case["shape"].get("zero_w"))))
        bump(probes, "tiebreak_fallback_print", o.printed.count("Initial tiebreak"))
        bump(probes, "nontrivial_draws", o.seam.nontrivial)
        tr = "".join(info["kinds"])
        traces.append(tr + ("!" if o.exc is not None else ""))
        if info["rounds"] >= 2 or any(info[k] for k in ("elim_ties", "top_ties", "default", "exact_thr", "random_transfers", "exhausted", "multi_elect")):
            nontrivial = True
        digs.append([canon.cstates(e), type(o.exc).__name__ if o.exc else None, common.log_outcomes(o.seam)])
        if trace:
            logs.append({"policy": pol, "draws": common.trim_log(o.seam), "states": canon.cstates(e)})
        if mm is not None:
            violations.append({
                "clause": mm.clause,
                "message": f"{case['rule']} {kw} under schedule {pol['kind']}: {mm}",
                "sig": {"rule": case["rule"], "clause": mm.clause},
            })
    res = {
        "violations": violations, "probes": probes, "faults": faults, "policies": policies,
        "trace": f"{case['rule']}|{sorted((k, str(v)) for k, v in kw.items())}|{traces}",
        "nontrivial": nontrivial, "rounds": rounds, "draws": draws, "digest": digest(digs),
        "summary": {"round_kinds_per_schedule": traces},
    }
    if trace:
        res["log"] = logs
    return res
