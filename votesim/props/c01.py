"""C01 -- every election terminates with exactly m winners and a consistent outcome.

Simulated system: the constructor of each rule class = a round-stepped process whose nondeterminism
(tiebreak permutations, random-transfer samples, dictator ballots, BRD coin and squares draw,
PluralityVeto voter order) is owned by the scheduler and whose liveness depends on data (round budget).
Each workload is executed under four schedules (asc, desc, keyed = stateless; seeded = stateful).
"""
from fractions import Fraction

from ..core import canon, seams
from ..core.seeds import stream, digest
from ..gen import profiles as G
from ..ref import scores as RS
from . import common

ID = "C01"
RUNS = {"quick": 9000, "thorough": 600000}
TIME = {"quick": 150, "thorough": 1500}
RULE_TEXT = (
    "case = seeded (profile, one of 19 rule classes, m, quota, simultaneous, transfer, tiebreak) executed under 4 schedules of the "
    "random seam (asc, desc, keyed, seeded) with a round budget of 2|C|+6; tiebreak=None cases that raise ValueError are re-run as a "
    "tiebreak='random' twin under the same schedule. non-trivial = the run met a tie, an exception, a budget stop, >=2 rounds, a zero-vote "
    "candidate, exhaustion or a non-trivial draw; distinct = distinct (rule, config, per-schedule outcome shape) signature"
)
ASSUMPTIONS = [
    "valid input = profiles the rule documents as accepted (untied ballots for the STV family/TopTwo/Alaska/pairwise rules, integer weights for PluralityVeto and random transfer, score ballots within L/k for score rules); score rules only with tiebreak None/'random' (the documented options)",
    "a ValueError is legitimate only when tiebreak=None and an independent exact tally (or, for multi-round rules, the tiebreak='random' twin under the same schedule) shows a tie straddling the seat being filled",
    "profiles bounded to <=7 candidates, <=12 distinct ballots",
]
case_size = common.case_size
shrink_steps = common.rule_case_steps

SINGLE_ROUND = ("Plurality", "SNTV", "Borda") + G.SCORE_RULES
HAS_TIEBREAK = G.STV_FAMILY + ("Plurality", "SNTV", "Borda", "TopTwo", "Alaska") + G.SCORE_RULES


def generate_big_pairwise(rng, run_seed):
    """8 candidates and a bullet vote (7 candidates left unranked, 5040 completions) whose weight decides a head-to-head contest:
    the only place where the pairwise rules leave the small-profile regime.  One schedule only (each election costs seconds)."""
    names = list(G.NAME_FAMILIES["plain"][:8])
    a, b = rng.sample(names, 2)
    rest = [c for c in names if c not in (a, b)]
    rng.shuffle(rest)
    w = rng.randint(3, 9)
    ballots = [{"r": [[b], [a]] + [[c] for c in rest], "w": str(w)}, {"r": [[a]], "w": str(w + rng.randint(1, 3))}]
    if rng.random() < 0.5:
        ballots.append({"r": [[a], [b]] + [[c] for c in rest[:3]], "w": str(rng.randint(1, 2))})
    rng.shuffle(ballots)
    rule = rng.choice(["DominatingSets", "CondoBorda"])
    kw = {} if rule == "DominatingSets" else {"m": rng.randint(1, 3)}
    rng.shuffle(names)
    return {"rule": rule, "kw": kw, "profile": {"candidates": names, "ballots": ballots}, "shape": {"n": 8, "nb": len(ballots), "law": "big-pairwise", "names": "plain"},
            "policies": common.gen_policies(rng, run_seed)[:1]}


def generate(run_seed, tier):
    rng = stream(run_seed, "gen")
    if rng.random() < 0.0015:
        return generate_big_pairwise(rng, run_seed)
    case = G.gen_rule_case(rng, max_c=6 if rng.random() < 0.9 else 7, pairwise_ties=True)
    case["policies"] = common.gen_policies(rng, run_seed)
    return case


def want_count(case):
    r, kw = case["rule"], case["kw"]
    if r in ("IRV", "TopTwo"):
        return 1
    if r == "Alaska":
        return kw["m_2"]
    if r == "DominatingSets":
        return None
    return kw["m"]


def check_outcome(e, cands, want):
    """clauses 2-4 on a completed election -> (clause, message) or None"""
    st = e.election_states
    seen_el, seen_out = set(), set()
    cs = sorted(cands)
    for r, s in enumerate(st):
        el = [c for x in e.get_elected(r) for c in x]
        out = [c for x in e.get_eliminated(r) for c in x]
        rem = [c for x in e.get_remaining(r) for c in x]
        if sorted(el + out + rem) != cs:
            return "partition", f"round {r}: elected={sorted(el)} eliminated={sorted(out)} remaining={sorted(rem)} do not list {cs} exactly once"
        if not seen_el <= set(el) or not seen_out <= set(out):
            return "status-regressed", f"round {r}: elected {sorted(seen_el)}->{sorted(el)} eliminated {sorted(seen_out)}->{sorted(out)}"
        seen_el, seen_out = set(el), set(out)
    n = len([c for x in e.get_elected() for c in x])
    if want is not None and n != want:
        return "count", f"final result elects {n} candidates, expected {want}"
    return None


def reference_boundary_tie(case):
    """independent verdict for single-round rules and stage 1 of composites:
    the tied group straddling the seat boundary of the deciding tally, or None; 'n/a' if not decidable here"""
    r, kw, jp = case["rule"], case["kw"], case["profile"]
    if r in ("Plurality", "SNTV"):
        return RS.straddle(RS.fpv(jp), kw["m"])
    if r == "Borda":
        return RS.straddle(RS.borda(jp, kw.get("score_vector")), kw["m"])
    if r in G.SCORE_RULES:
        return RS.straddle(RS.score_totals(jp), kw["m"])
    return "n/a"


def diagnose(case, o):
    """structural predicate of the failing situation, computed from the case (and, for the STV family, the
    states recorded before the failure) -- the 'specific input / call site' part of a known-finding signature"""
    r, kw, jp = case["rule"], case["kw"], case["profile"]
    pos = [b for b in jp["ballots"] if Fraction(b["w"]) > 0]
    if r == "Alaska" and o.exc is not None and o.seam.kind == "seeded" and o.seam.nontrivial >= 1:
        import traceback

        names = [t.name for t in traceback.extract_tb(o.exc.__traceback__) if seams.in_votekit(t.filename)]
        if "get_profile" in names:  # the failure happened while re-executing recorded rounds
            return "alaska_replay_redraws"
    if r in G.STV_FAMILY + ("Alaska",) and kw.get("quota") == "hare":
        N = sum((Fraction(b["w"]) for b in jp["ballots"]), Fraction(0))
        if N < (1 if r == "IRV" else kw.get("m", kw.get("m_2", 1))):
            return "hare_threshold_zero"
    if not pos:
        return "no_positive_weight_ballots"
    mentioned = {c for b in pos for g in (b.get("r") or []) for c in g} | {c for b in pos for c in (b.get("s") or {})}
    m = kw.get("m", kw.get("m_2", 1))
    if r in ("RandomDictator", "BoostedRandomDictator") and len(mentioned) < m:
        return "fewer_ranked_candidates_than_seats"
    if r == "PluralityVeto" and not o.budget and kw.get("tiebreak") in ("borda", "first_place") and any(len(g) > 1 for b in jp["ballots"] for g in (b.get("r") or [])):
        return "tied_ballots_with_scored_tiebreak"
    if r == "PluralityVeto":
        f = RS.fpv(jp)
        npos = sum(1 for c in f if f[c] > 0)
        if npos < len(f) and npos <= m:
            return "zero_first_place_candidates_and_at_most_m_others"
    if r in G.STV_FAMILY + ("Alaska",):
        for x in [x for x in o.live if type(x).__name__ in G.STV_FAMILY]:
            n_el = len([c for s in x.get_elected() for c in s])
            over = [c for c, v in x.election_states[-1].scores.items() if v >= x.threshold]
            if n_el > x.m or (x.simultaneous and len(over) > x.m - n_el):
                return "more_over_quota_than_seats"
    return "none"


def execute(case, trace=False):
    kw = case["kw"]
    rule = case["rule"]
    want = want_count(case)
    cands = case["profile"]["candidates"]
    violations, probes, faults, policies = [], {}, {}, {}
    shapes, digs, logs = [], [], []
    rounds = draws = 0
    nontrivial = False

    def bump(d, k, v=1):
        if v:
            d[k] = d.get(k, 0) + v

    def viol(clause, msg, pol, **sig):
        s = {"rule": rule, "clause": clause}
        s.update(sig)
        violations.append({"clause": clause, "message": f"{rule} {kw} under schedule {pol['kind']}: {msg}", "sig": s})

    ref_tie = reference_boundary_tie(case)
    smith = RS.smith_set(case["profile"]) if rule == "DominatingSets" else None
    bump(faults, "zero_vote_candidates", int(case["shape"].get("ghosts", 0) > 0))
    bump(faults, "rational_weights", int(case["shape"].get("wfam") == "rat"))
    bump(faults, "zero_weight_ballot", int(bool(case["shape"].get("zero_w"))))
    bump(faults, "empty_profile", int(case["shape"].get("nb", 1) == 0))
    bump(faults, "single_candidate", int(len(cands) == 1))
    for pol in case["policies"]:
        o = common.run_rule(case, pol, log_populations=trace)
        bump(policies, pol["kind"])
        draws += o.seam.draws
        bump(probes, "nontrivial_draws", o.seam.nontrivial)
        shape = ""
        if o.budget:
            nontrivial = True
            bump(faults, "round_budget_hit")
            shape = "BUDGET"
            viol("termination", f"round budget exceeded ({o.exc})", pol, cond=diagnose(case, o))
        elif o.exc is not None:
            nontrivial = True
            ex = o.exc
            shape = "X:" + type(ex).__name__
            if isinstance(ex, ValueError):
                # legitimate only for an unbroken genuine boundary tie
                legit, why = judge_value_error(case, pol, o, ref_tie)
                bump(probes, "ValueError_legit" if legit else "ValueError_illegit")
                bump(faults, "unbroken_boundary_tie", int(bool(legit)))
                if legit is None:
                    bump(probes, "ValueError_unjudged")
                elif not legit:
                    es = common.exc_sig(ex)
                    viol("valueerror-without-tie", f"ValueError({str(ex)[:80]}) but {why}", pol, cond=diagnose(case, o), **es)
            else:
                es = common.exc_sig(ex)
                bump(faults, "escaped:" + es["exc"])
                viol("exception", f"{es['exc']}({str(ex)[:80]}) escaped at {es['frame']}", pol, cond=diagnose(case, o), **es)
        else:
            e = o.election
            nr = len(e.election_states) - 1
            rounds += nr
            tb = any(s.tiebreaks for s in e.election_states)
            shape = f"ok{nr}{'t' if tb else ''}"
            if nr >= 2 or tb or o.seam.nontrivial:
                nontrivial = True
            bump(faults, "recorded_tiebreak", int(tb))
            bad = check_outcome(e, cands, want)
            if bad:
                viol(bad[0], bad[1], pol)
            else:
                # the *final result* must survive being looked at: a profile query may not add winners or rounds
                n_states = len(e.election_states)
                with seams.quiet():
                    try:
                        e.get_profile()
                        e.get_step()
                    except Exception:
                        pass  # replaying a random path may legitimately fail (C09's scope); only the recorded result matters here
                bad2 = check_outcome(e, cands, want)
                if bad2 or len(e.election_states) != n_states:
                    viol("result-changed-by-query", f"after get_profile()/get_step() the election has {len(e.election_states) - 1} recorded rounds (was {n_states - 1}) and {bad2[1] if bad2 else 'a consistent outcome'}", pol)
            if smith is not None:
                got = sorted(c for s in e.get_elected() for c in s)
                if got != smith:
                    viol("smith-set", f"elected {got}, top dominating tier is {smith}", pol)
            if kw.get("tiebreak", "x") is None and rule in HAS_TIEBREAK:
                if ref_tie not in (None, "n/a"):
                    viol("tie-not-raised", f"returned a result although {ref_tie} are tied across seat {kw.get('m')} and no tiebreak was requested", pol)
                elif ref_tie == "n/a":
                    tw = twin(case, pol)
                    if tw.election is not None and first_selection_tiebreak(tw.election, rule) is not None:
                        viol("tie-not-raised", f"returned a result although the tiebreak='random' twin records a seat-boundary tiebreak in round {first_selection_tiebreak(tw.election, rule)}", pol)
            digs.append(canon.cstates(e))
        shapes.append(shape)
        if o.exc is not None:
            digs.append([type(o.exc).__name__, common.log_outcomes(o.seam)])
        if trace:
            logs.append({"policy": pol, "draws": common.trim_log(o.seam), "outcome": shape,
                         "states": canon.cstates(o.election) if o.election is not None else [canon.cstates(x) for x in o.live[:1]]})
    res = {
        "violations": violations, "probes": probes, "faults": faults, "policies": policies,
        "trace": f"{rule}|{sorted((k, str(v)) for k, v in kw.items())}|{shapes}",
        "nontrivial": nontrivial, "rounds": rounds, "draws": draws, "digest": digest(digs),
        "summary": {"outcome_per_schedule": shapes},
    }
    if trace:
        res["log"] = logs
    return res


def twin(case, pol):
    kw2 = dict(case["kw"], tiebreak="random")
    return common.run_rule(dict(case, kw=kw2), pol, log_populations=False)


def first_selection_tiebreak(e, rule):
    """index of the first round recording a tiebreak that is not an STV-family elimination tie"""
    for i, s in enumerate(e.election_states):
        if not s.tiebreaks:
            continue
        elim = [c for g in s.eliminated for c in g]
        for k in s.tiebreaks:
            if rule in G.STV_FAMILY + ("Alaska",) and i >= (2 if rule == "Alaska" else 1) and elim and set(elim) <= set(k) and not any(len(g) for g in s.elected):
                continue  # elimination tie: always broken
            return i
    return None


def judge_value_error(case, pol, o, ref_tie):
    """-> (True/False/None, reason).  None = cannot be judged here (left to other runs)"""
    kw, rule = case["kw"], case["rule"]
    if rule not in HAS_TIEBREAK or kw.get("tiebreak", "x") is not None:
        return False, "a tiebreak was requested or the rule takes none"
    if ref_tie != "n/a":
        if ref_tie is None:
            return False, "the exact tally has no tie across the seat boundary"
        return True, ""
    # multi-round / composite rules: twin with tiebreak='random' under the same schedule
    part = [x for x in o.live if type(x).__name__ == rule]
    done = len(part[0].election_states) - 1 if part else 0
    tw = twin(case, pol)
    if tw.election is None:
        # the twin meets the same tie and then fails later for its own reasons: judge by its partial states
        tpart = [x for x in tw.live if type(x).__name__ == rule]
        if not tpart:
            return None, "twin produced no states"
        te = tpart[0]
    else:
        te = tw.election
    if part and canon.cstates(part[0])[: done + 1] != canon.cstates(te)[: done + 1]:
        return False, "the tiebreak='random' twin under the same schedule diverges before the round that raised"
    fs = first_selection_tiebreak(te, rule)
    if fs is None:
        if tw.election is None:
            return None, "twin failed before recording a tiebreak"
        return False, "the tiebreak='random' twin under the same schedule never records a seat-boundary tiebreak"
    if fs <= done:
        return False, f"twin's first seat-boundary tiebreak is in round {fs}, before the raising round {done + 1}"
    if rule != "Alaska" and fs != done + 1:
        return False, f"twin's first seat-boundary tiebreak is in round {fs}, not the raising round {done + 1}"
    return True, ""
