"""C18 -- cast-vote-record loading and saving keep every vote (the I/O surface).

Simulated disk: a private scratch directory (removed after every run) populated from the seed by an
independent writer.  Fault injection = the faulty file itself: missing file, zero-byte file, header-only
file, a blank or duplicated voter id at a seeded row, inconsistent Scottish metadata.
"""
import ast
import csv
import io
import os
import shutil
import tempfile
from fractions import Fraction

from ..core import canon, seams
from ..core.seeds import stream, digest, derive
from ..gen import profiles as G
from . import common

ID = "C18"
RUNS = {"quick": 60000, "thorough": 3000000}
TIME = {"quick": 150, "thorough": 1500}
RULE_TEXT = (
    "case kinds: csv = seeded table (1-6 rank columns, optional id/weight/extra columns at any position, delimiter in , ; | tab, CRLF/LF, repeated rows, short ballots with "
    "blank cells, names with spaces/quotes/commas/unicode) + rank_cols (all, or any ordered subset) + one optional injected fault; scot = seeded Scottish-format file "
    "(any candidate count, blank rows, quoted party names) + optional metadata fault; save = seeded profile written with to_csv and re-read with the csv module. "
    "non-trivial = >=2 distinct row patterns or an injected fault; distinct = distinct (kind, layout, options, fault, shape) signature"
)
ASSUMPTIONS = [
    "tokens pandas retypes (pure numbers, True/False) or treats as NA (NA, N/A, null, None, nan, ...) are excluded from the candidate-name pool: their treatment is pandas parsing convention, not VoteKit logic",
    "rows whose line would be entirely empty are not generated (pandas skips blank lines)",
    "voter sets are recorded as a probe only: the statement promises ballots and weights",
]
REAL_VS_STUB = "real: votekit loaders, pandas, csv, the real file system (private scratch directory under $TMPDIR); no stub"
NAMES = ["Ann", "Bob Lee", "O'Hara", 'Z "Zed" Z', "x,y", "Ünal", "de la Cruz", "A-1", "q;r", "p|s", "Mc Tab", "A\\B", "AB", "N\\A", "c:\\d", "e#f"]
DELIMS = [",", ";", "|", "\t"]


def case_size(case):
    return {"rows": len(case.get("rows", [])), "cols": len(case.get("header", [])), "fault": case.get("fault")}


def generate(run_seed, tier):
    rng = stream(run_seed, "gen")
    kind = G.wchoice(rng, [("csv", 6), ("scot", 3), ("save", 1)])
    if kind == "csv":
        return gen_csv(rng)
    if kind == "scot":
        return gen_scot(rng)
    jp, shape = G.gen_ranked_profile(rng, allow_ties=rng.random() < 0.4, max_c=5)
    jp["ballots"] = [b for b in jp["ballots"] if Fraction(b["w"]) > 0]
    if rng.random() < 0.4:
        for b in jp["ballots"]:
            if rng.random() < 0.5:
                b["s"] = {c: canon.fs(Fraction(rng.randint(1, 6), rng.choice([1, 2, 4]))) for c in rng.sample(jp["candidates"], rng.randint(1, len(jp["candidates"])))}
    return {"kind": "save", "profile": jp}


def gen_csv_bulk(rng):
    """a large cast vote record (tens of thousands of rows): validation and grouping must hold across the whole file,
    wherever the reader happens to cut it into pieces"""
    n_rank = rng.randint(1, 3)
    layout = ["id"] + ["rank"] * n_rank
    if rng.random() < 0.5:
        layout = ["rank"] * n_rank + ["id"]
    pats = [[rng.choice(["Ann", "Bob Lee", "O'Hara", ""]) for _ in range(n_rank)] for _ in range(rng.randint(2, 5))]
    n = rng.choice([50001, 60000, 100003, 131073])
    fault = G.wchoice(rng, [(None, 2), ("dup_id", 4), ("blank_id", 3)])
    far = rng.choice([(0, n - 1), (1, n // 2 + 7), (n // 2 - 1, n // 2), (49999, 50000), (65535, 65536)])
    far = (min(far[0], n - 1), min(far[1], n - 1))
    return {"kind": "csv", "bulk": {"n": n, "patterns": pats}, "header": ["voter id" if t == "id" else "rank%d" % i for i, t in enumerate(layout)],
            "layout": layout, "rows": [], "delim": ",", "crlf": False, "rank_cols": [i for i, t in enumerate(layout) if t == "rank"],
            "id_col": layout.index("id"), "weight_col": None, "fault": fault, "fault_row": far[1], "fault_row2": far[0], "id_style": "str"}


def expand_rows(case):
    b = case.get("bulk")
    if not b:
        return [list(r) for r in case["rows"]]
    rows = []
    pats = b["patterns"]
    for i in range(b["n"]):
        pat = pats[(i * 7 + i // 3) % len(pats)]
        row, ri = [], 0
        for t in case["layout"]:
            if t == "rank":
                row.append(pat[ri])
                ri += 1
            else:
                row.append("v%06d" % i)
        rows.append(row)
    return rows


def gen_csv(rng):
    if rng.random() < 0.002:
        return gen_csv_bulk(rng)
    n_rank = rng.randint(1, 6)
    cols = ["rank%d" % (i + 1) for i in range(n_rank)]
    has_id = rng.random() < 0.45
    has_w = rng.random() < 0.3
    has_extra = rng.random() < 0.25
    layout = [("rank", c) for c in cols]
    if has_id:
        layout.insert(rng.randint(0, len(layout)), ("id", "voter id"))
    if has_w:
        layout.insert(rng.randint(0, len(layout)), ("weight", "wt"))
    if has_extra:
        layout.insert(rng.randint(0, len(layout)), ("extra", "precinct"))
    header = [name for _, name in layout]
    # header cells carry no meaning for the loader (columns are addressed by position): blank, numeric, duplicated or odd labels
    hstyle = G.wchoice(rng, [("plain", 65), ("blank", 15 if len(layout) > 1 else 0), ("numeric", 10), ("odd", 10)])
    if hstyle != "plain":
        odd = rng.sample(["Unnamed: 7", "Choice #1", " rank 1 ", "1st, choice", "rank", "rank", "Unnamed: 0", "weight", "id"], 6)
        k = 0
        for i, (typ, _) in enumerate(layout):
            if typ != "rank":
                continue
            k += 1
            if hstyle == "blank":
                header[i] = "" if rng.random() < 0.5 else header[i]
            elif hstyle == "numeric":
                header[i] = str(k)
            else:
                header[i] = odd[k - 1]
        if all(h == "" for h in header):
            header[0] = "rank1"
    pool = rng.sample(NAMES, rng.randint(2, 6))
    delim = G.wchoice(rng, [(",", 5), (";", 2), ("|", 2), ("\t", 2)])
    pool = [p for p in pool if delim not in p or rng.random() < 0.5] or ["Ann", "Bob Lee"]
    nrows = rng.randint(1, 12)
    patterns = []
    for _ in range(rng.randint(1, 5)):
        k = rng.randint(1, n_rank)
        pat = [rng.choice(pool) for _ in range(k)] + [""] * (n_rank - k)
        if k >= 2 and rng.random() < 0.15:
            pat[rng.randrange(k - 1)] = ""  # a skipped position in the middle
        patterns.append(pat)
    if rng.random() < 0.3:
        patterns.append([""] * n_rank)  # a voter who left every rank blank: one ballot of explicit blanks
    if n_rank >= 2 and rng.random() < 0.1:
        # distinct patterns whose cells coincide once joined with a separator: ("Brown,Lee","Kim") vs ("Brown","Lee,Kim")
        sep = rng.choice([",", " ", ";", "|"])
        a, b, c = rng.sample(["Brown", "Lee", "Kim", "Ann", "Bo"], 3)
        patterns.append([a + sep + b, c] + [""] * (n_rank - 2))
        patterns.append([a, b + sep + c] + [""] * (n_rank - 2))
    rows = []
    id_style = rng.choice(["str", "int"])
    only_ranks = not (has_id or has_w or has_extra)
    for i in range(nrows):
        pat = list(rng.choice(patterns))
        if len(layout) == 1 and all(x == "" for x in pat):
            pat[0] = pool[0]  # a one-column file: the line would be empty and pandas skips empty lines
        row = []
        ri = 0
        for typ, _ in layout:
            if typ == "rank":
                row.append(pat[ri])
                ri += 1
            elif typ == "id":
                row.append(("v%03d" % i) if id_style == "str" else str(1000 + i))
            elif typ == "weight":
                u = rng.random()
                # weights: whole numbers, small dyadic fractions, and fine dyadic fractions (2^-20 steps) -- all exactly
                # representable as floats with exact sums, so the expected total is unambiguous
                row.append(str(rng.choice([1, 1, 2, 3, 10])) if u < 0.75 else rng.choice(["1.5", "2.5", "0.25"]) if u < 0.9
                           else rng.choice(["9.5367431640625e-07", "2.00000095367431640625", "0.50000095367431640625"]))
            else:
                row.append("P%d" % rng.randint(1, 3))
        rows.append(row)
    rank_idx = [i for i, (t, _) in enumerate(layout) if t == "rank"]
    if only_ranks and rng.random() < 0.4:
        rank_cols = []
    elif has_id and not has_w and not has_extra and rng.random() < 0.3:
        rank_cols = []
    else:
        mode = G.wchoice(rng, [("all", 5), ("subset", 3), ("reorder", 2)])
        if mode == "all":
            rank_cols = list(rank_idx)
        elif mode == "subset":
            rank_cols = sorted(rng.sample(rank_idx, rng.randint(1, len(rank_idx))))
        else:
            rank_cols = list(rank_idx)
            rng.shuffle(rank_cols)
    fault = G.wchoice(rng, [(None, 70), ("missing", 5), ("zero_byte", 4), ("header_only", 4), ("blank_id", 8 if has_id else 0), ("dup_id", 8 if has_id else 0)])
    case = {"kind": "csv", "header": header, "layout": [t for t, _ in layout], "rows": rows, "delim": delim, "crlf": rng.random() < 0.3,
            "rank_cols": rank_cols, "id_col": [t for t, _ in layout].index("id") if has_id else None,
            "reuse": rng.random() < 0.3, "blank_two": rng.random() < 0.5, "default_delimiter": rng.random() < 0.5, "weight_col": [t for t, _ in layout].index("weight") if has_w else None, "fault": fault, "fault_row": rng.randrange(nrows), "fault_row2": rng.randrange(nrows), "id_style": id_style if has_id else None}
    return case


def gen_scot(rng):
    n = rng.randint(1, 6) if rng.random() < 0.8 else rng.randint(7, 14)  # "any candidate count": two-digit candidate numbers too
    pool = ["Paul", "George", "Ringo", "John Lennon", "O'Hara", "Ünal", "de la Cruz", "Mc Tab", "Yoko", "Zed Z", "Stu", "Pete B", "Linda", "Billy P", "Klaus V", "Mal E"]
    names = rng.sample(pool, n)
    parties = [rng.choice(["Orange (O)", "Yellow, Party (Y)", "Red (R)", "Independent", "Green"]) for _ in names]
    rows = []
    for _ in range(rng.randint(0, 8)):
        k = rng.randint(1, min(n, 6)) if rng.random() < 0.8 else rng.randint(1, n)
        rows.append([rng.choice([1, 1, 2, 9, 126])] + rng.sample(range(1, n + 1), k))
    fault = G.wchoice(rng, [(None, 70), ("missing", 5), ("zero_byte", 5), ("meta_short", 5), ("meta_long", 5), ("overcount", 5), ("undercount", 5 if n > 1 else 0)])
    return {"kind": "scot", "n": n, "seats": rng.randint(1, n), "names": names, "parties": parties, "rows": rows, "ward": rng.choice(["Wardy McWard Ward", "Ward 7", "North, East"]),
            "blank_rows": sorted(rng.sample(range(0, len(rows) + n + 3), rng.randint(0, 3))), "trailing_comma": rng.random() < 0.7, "fault": fault}


def shrink_steps(case):
    if case["kind"] == "csv":
        rows = case["rows"]
        for i in range(len(rows)):
            if len(rows) > 1:
                yield dict(case, rows=rows[:i] + rows[i + 1 :], fault_row=min(case["fault_row"], len(rows) - 2), fault_row2=min(case["fault_row2"], len(rows) - 2))
        if case["delim"] != ",":
            yield dict(case, delim=",", rows=[[c.replace(",", " ") for c in r] for r in rows])
        if case["crlf"]:
            yield dict(case, crlf=False)
        for i, r in enumerate(rows):
            for j, (t, c) in enumerate(zip(case["layout"], r)):
                if t == "rank" and c not in ("", "A", "B"):
                    nr = list(r)
                    nr[j] = "A" if c != "A" else "B"
                    yield dict(case, rows=rows[:i] + [nr] + rows[i + 1 :])
    elif case["kind"] == "scot":
        rows = case["rows"]
        for i in range(len(rows)):
            yield dict(case, rows=rows[:i] + rows[i + 1 :])
        if case["blank_rows"]:
            yield dict(case, blank_rows=[])
    else:
        for jp in G.shrink_profile_steps(case["profile"]):
            yield dict(case, profile=jp)


# --------------------------------------------------------------------------------------------- csv
def write_csv(case, path):
    rows = expand_rows(case)
    f = case["fault"]
    if f == "blank_id":
        rows[case["fault_row"]][case["id_col"]] = ""
        if case.get("blank_two") and len(rows) >= 2:
            # several voters without an id: still "a blank voter id" (ValueError), not a duplicated one
            rows[case["fault_row2"] if case["fault_row2"] != case["fault_row"] else (case["fault_row"] + 1) % len(rows)][case["id_col"]] = ""
    if f == "dup_id" and len(rows) >= 2:
        a, b = case["fault_row"], case["fault_row2"]
        if a == b:
            b = (a + 1) % len(rows)
        rows[b][case["id_col"]] = rows[a][case["id_col"]]
    buf = io.StringIO()
    w = csv.writer(buf, delimiter=case["delim"], lineterminator="\r\n" if case["crlf"] else "\n", quoting=csv.QUOTE_MINIMAL)
    w.writerow(case["header"])
    if f != "header_only":
        for r in rows:
            w.writerow(r)
    data = "" if f == "zero_byte" else buf.getvalue()
    if f != "missing":
        with open(path, "w", encoding="utf8", newline="") as fh:
            fh.write(data)
    return rows


def run_csv(case, scratch):
    from pandas.errors import DataError, EmptyDataError
    from votekit.cvr_loaders import load_csv

    bad = []
    path = os.path.join(scratch, "cvr.csv")
    rows = write_csv(case, path)
    kw = {}
    if case["id_col"] is not None:
        kw["id_col"] = case["id_col"]
    if case["weight_col"] is not None:
        kw["weight_col"] = case["weight_col"]
    if case["delim"] != "," or not case.get("default_delimiter"):
        kw["delimiter"] = case["delim"]  # a comma file is loaded both with delimiter="," and with the argument left out
    prof, exc = None, None
    with seams.quiet():
        try:
            rc = list(case["rank_cols"])
            if case.get("reuse"):
                # one column configuration serving two loads: the very same argument objects are passed twice
                try:
                    load_csv(path, rc, **kw)
                except Exception:
                    pass
            prof = load_csv(path, rc, **kw)
        except seams.WallAlarm:
            raise
        except Exception as ex:
            exc = ex
    f = case["fault"]
    expected_exc = {"missing": FileNotFoundError, "zero_byte": EmptyDataError, "header_only": EmptyDataError, "blank_id": ValueError, "dup_id": DataError}.get(f)
    if f == "dup_id" and len(rows) < 2:
        expected_exc = None
    if expected_exc is not None:
        if exc is None:
            bad.append(("fault-accepted", f"fault '{f}' (row {case['fault_row']}) was accepted: a profile was returned instead of {expected_exc.__name__}", {"fault": f}))
        elif type(exc) is not expected_exc and not isinstance(exc, expected_exc):
            bad.append(("fault-wrong-error", f"fault '{f}' raised {type(exc).__name__}({str(exc)[:80]}) instead of {expected_exc.__name__}", {"fault": f, "exc": type(exc).__name__}))
        return bad, None
    layout = case["layout"]
    ranks = list(case["rank_cols"]) or [i for i, t in enumerate(layout) if t not in ("id",)]
    exp = {}
    ids = {}
    for r in rows:
        pat = tuple(r[i] if r[i] != "" else None for i in ranks)
        w = Fraction(r[case["weight_col"]]) if case["weight_col"] is not None else Fraction(1)
        exp[pat] = exp.get(pat, Fraction(0)) + w
        if case["id_col"] is not None:
            ids.setdefault(pat, set()).add(r[case["id_col"]])
    if exc is not None:
        bad.append(("load-raised", f"well-formed file (layout {layout}, rank_cols={case['rank_cols']}, id_col={case['id_col']}, weight_col={case['weight_col']}) raised {type(exc).__name__}({str(exc)[:100]})",
                    {"exc": type(exc).__name__, "cond": cond_csv(case)}))
        return bad, None
    got = {}
    dup = False
    for b in prof.ballots:
        pat = tuple(next(iter(s)) for s in b.ranking) if b.ranking else ()
        pat = tuple(None if (x is None or x != x) else x for x in pat)
        if any(len(s) != 1 for s in (b.ranking or ())):
            bad.append(("ballot-shape", f"ballot {b.ranking} has a position that is not a single entry", {}))
        if pat in got:
            dup = True
        got[pat] = got.get(pat, Fraction(0)) + b.weight
    if dup:
        bad.append(("pattern-twice", "a row pattern appears as more than one ballot", {}))
    if got != exp:
        miss = [(p, canon.fs(w)) for p, w in exp.items() if got.get(p) != w][:3]
        extra = [(p, canon.fs(w)) for p, w in got.items() if exp.get(p) != w][:3]
        bad.append(("ballots-differ", f"layout {layout}, rank_cols={case['rank_cols']}, id_col={case['id_col']}, weight_col={case['weight_col']}: expected pattern weights {miss} but loaded {extra}", {"cond": cond_csv(case)}))
    elif prof.total_ballot_wt != sum(exp.values(), Fraction(0)):
        bad.append(("total-weight", f"total weight {prof.total_ballot_wt} vs {sum(exp.values(), Fraction(0))}", {}))
    return bad, prof


def cond_csv(case):
    """structural predicate for known-finding signatures"""
    nr = len(case["rank_cols"]) if case["rank_cols"] else None
    if case.get("id_style") == "int":
        return "numeric_voter_ids"
    if case["weight_col"] is not None:
        return "weight_col_given"
    if case["id_col"] is not None and nr is not None and case["id_col"] != nr:
        return "id_col_not_at_position_len_rank_cols"
    if case["id_col"] is not None and nr is None:
        return "id_col_with_default_rank_cols"
    return "none"


# --------------------------------------------------------------------------------------------- scot
def write_scot(case, path):
    f = case["fault"]
    n = case["n"]
    tc = "," if case["trailing_comma"] else ""
    meta = [n, case["seats"]]
    if f == "meta_short":
        meta = [n]
    if f == "meta_long":
        meta = [n, case["seats"], 7]
    if f == "overcount":
        meta = [n + 1, case["seats"]]
    if f == "undercount":
        meta = [n - 1, case["seats"]]
    lines = [",".join(str(x) for x in meta) + tc]
    for r in case["rows"]:
        lines.append(",".join(str(x) for x in r) + tc)
    for i, (nm, pt) in enumerate(zip(case["names"], case["parties"])):
        lines.append('"Candidate %d","%s","%s"%s' % (i + 1, nm, pt, tc))
    lines.append('"%s"%s' % (case["ward"], tc))
    for pos in reversed(case["blank_rows"]):
        if 1 <= pos <= len(lines):
            lines.insert(pos, "" if pos % 2 else ",,")
    data = "" if f == "zero_byte" else "\n".join(lines) + "\n"
    if f != "missing":
        with open(path, "w", encoding="utf-8", newline="") as fh:
            fh.write(data)


def run_scot(case, scratch):
    from pandas.errors import DataError, EmptyDataError
    from votekit.cvr_loaders import load_scottish

    bad = []
    path = os.path.join(scratch, "scot.csv")
    write_scot(case, path)
    out, exc = None, None
    with seams.quiet():
        try:
            out = load_scottish(path)
        except seams.WallAlarm:
            raise
        except Exception as ex:
            exc = ex
    f = case["fault"]
    expected_exc = {"missing": FileNotFoundError, "zero_byte": EmptyDataError, "meta_short": DataError, "meta_long": DataError, "overcount": DataError, "undercount": DataError}.get(f)
    if expected_exc is not None:
        if exc is None:
            bad.append(("fault-accepted", f"Scottish file with fault '{f}' was accepted", {"fault": f}))
        elif not isinstance(exc, expected_exc):
            bad.append(("fault-wrong-error", f"Scottish file with fault '{f}' raised {type(exc).__name__}({str(exc)[:80]}) instead of {expected_exc.__name__}", {"fault": f, "exc": type(exc).__name__}))
        return bad, None
    if exc is not None:
        bad.append(("load-raised", f"well-formed Scottish file raised {type(exc).__name__}({str(exc)[:100]})", {"exc": type(exc).__name__}))
        return bad, None
    prof, seats, cand_list, c2p, ward = out
    if seats != case["seats"] or ward != case["ward"] or list(cand_list) != list(case["names"]) or dict(c2p) != dict(zip(case["names"], case["parties"])):
        bad.append(("scot-metadata", f"declared seats/ward/candidates/parties {case['seats'], case['ward'], case['names'], case['parties']} but loaded {seats, ward, cand_list, c2p}", {}))
    if sorted(prof.candidates) != sorted(case["names"]):
        bad.append(("scot-candidates", f"profile candidates {sorted(prof.candidates)} vs declared {sorted(case['names'])}", {}))
    exp = {}
    for r in case["rows"]:
        k = tuple(case["names"][i - 1] for i in r[1:])
        exp[k] = exp.get(k, Fraction(0)) + r[0]
    got = canon.rmap(prof)
    if got != exp:
        bad.append(("ballots-differ", f"declared ballots {exp} but loaded {got}", {}))
    return bad, prof


# --------------------------------------------------------------------------------------------- save
def run_save(case, scratch):
    bad = []
    p = canon.build_profile(case["profile"])
    path = os.path.join(scratch, "out.csv")
    try:
        p.to_csv(path)
    except Exception as ex:
        return [("save-raised", f"to_csv raised {type(ex).__name__}({str(ex)[:80]})", {"exc": type(ex).__name__})], None
    with open(path, newline="") as fh:
        rd = list(csv.reader(fh))
    if not rd or rd[0] != ["weight", "ranking", "scores"]:
        return [("save-header", f"header {rd[:1]}", {})], None
    body = rd[1:]
    if len(body) != len(p.ballots):
        bad.append(("save-rows", f"{len(body)} rows written for {len(p.ballots)} ballots", {}))
        return bad, None
    for row, b in zip(body, p.ballots):
        try:
            w = float(row[0])
            rk = ast.literal_eval(row[1])
            sc = ast.literal_eval(row[2])
        except Exception as ex:
            bad.append(("save-parse", f"row {row} is not readable: {ex!r}", {}))
            break
        if w != float(b.weight):
            bad.append(("save-weight", f"row weight {w} vs ballot weight {b.weight}", {}))
            break
        exp_r = tuple(set(s) for s in b.ranking) if b.ranking else ()
        if tuple(set(x) for x in rk) != exp_r:
            bad.append(("save-ranking", f"row ranking {rk} vs ballot ranking {exp_r}", {}))
            break
        exp_s = sorted((c, float(v)) for c, v in (b.scores or {}).items())
        if sorted(tuple(x) for x in sc) != exp_s:
            bad.append(("save-scores", f"row scores {sc} vs ballot scores {exp_s}", {}))
            break
    return bad, p


def loaded_repr(prof):
    if prof is None:
        return None
    out = []
    for b in prof.ballots:
        r = [sorted(repr(x) for x in s) for s in (b.ranking or ())]
        sc = sorted((c, canon.fs(v)) for c, v in (b.scores or {}).items())
        out.append([r, sc, canon.fs(b.weight)])
    return sorted(out, key=repr)


def execute(case, trace=False):
    violations, probes, faults = [], {}, {}
    scratch = tempfile.mkdtemp(prefix="vk-disk-")
    try:
        if case["kind"] == "csv":
            bad, prof = run_csv(case, scratch)
        elif case["kind"] == "scot":
            bad, prof = run_scot(case, scratch)
        else:
            bad, prof = run_save(case, scratch)
    finally:
        shutil.rmtree(scratch, ignore_errors=True)
    f = case.get("fault")
    if f:
        faults["fault:" + case["kind"] + ":" + f] = 1
    if case["kind"] == "csv" and case.get("bulk"):
        faults["bulk_file_rows_over_50000"] = 1
    if case["kind"] == "csv":
        if any(c == "" for r in case["rows"] for t, c in zip(case["layout"], r) if t == "rank"):
            faults["blank_rank_cells"] = 1
        if case["delim"] != ",":
            faults["alternative_delimiter"] = 1
        if any(any(ch in c for ch in ',"\';|') for r in case["rows"] for c in r):
            faults["names_with_quotes_or_delimiters"] = 1
        if len({tuple(r) for r in case["rows"]}) < len(case["rows"]):
            faults["repeated_rows"] = 1
        if case.get("reuse"):
            faults["argument_objects_reused_for_a_second_load"] = 1
        if any(h == "" for h in case["header"]):
            faults["blank_header_cells"] = 1
        if len(set(case["header"])) < len(case["header"]):
            faults["duplicated_header_labels"] = 1
    if case["kind"] == "scot" and case["blank_rows"]:
        faults["blank_rows"] = 1
    for clause, msg, extra in bad:
        sig = {"kind": case["kind"], "clause": clause}
        sig.update(extra)
        violations.append({"clause": clause, "message": f"{case['kind']}: {msg}", "sig": sig})
    if case["kind"] == "csv":
        npat = len({tuple(c for t, c in zip(case["layout"], r) if t == "rank") for r in case["rows"]})
        tr = f"csv|{case['layout']}|{case['rank_cols']}|{case['delim']!r}|{case['crlf']}|{f}|{npat}"
        nontrivial = npat >= 2 or bool(f)
    elif case["kind"] == "scot":
        tr = f"scot|{case['n']}|{len(case['rows'])}|{len(case['blank_rows'])}|{case['trailing_comma']}|{f}"
        nontrivial = len(case["rows"]) >= 2 or bool(f)
    else:
        tr = f"save|{len(case['profile']['candidates'])}|{len(case['profile']['ballots'])}|{any('s' in b for b in case['profile']['ballots'])}"
        nontrivial = len(case["profile"]["ballots"]) >= 2
    res = {"violations": violations, "probes": probes, "faults": faults, "policies": {"none (no draws)": 1}, "trace": tr, "nontrivial": nontrivial, "rounds": 1, "draws": 0,
           "digest": digest([loaded_repr(prof), [v["sig"] for v in violations]]), "summary": {"kind": case["kind"], "fault": f}}
    if trace:
        res["log"] = [{"loaded": loaded_repr(prof)}]
    return res
