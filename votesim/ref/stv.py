"""RefSTV -- the count exactly as property C02 states it, as a *relation* checked in lock-step.

Works on ranking->weight maps (`canon.rmap`) with exact Fractions.  At a free choice (residual
elimination tie, one-by-one top tie with a tiebreak configured, random transfer) the reference accepts
any legal successor and then follows the implementation's choice.
"""
from fractions import Fraction

from ..core import canon


def quota_value(N, m, quota):
    N = Fraction(N)
    if quota == "droop":
        return (N / (m + 1)).__floor__() + 1
    if quota == "hare":
        return (N / m).__floor__()
    raise ValueError(quota)


def tallies(rm, hopefuls):
    t = {c: Fraction(0) for c in hopefuls}
    for r, w in rm.items():
        if r:
            t[r[0]] += w
    return t


def groups(t, high_low=True):
    vals = sorted(set(t.values()), reverse=high_low)
    return [sorted(c for c in t if t[c] == v) for v in vals]


def strip(rm, removed):
    """delete candidates from every ranking; drop exhausted rankings; merge"""
    removed = set(removed)
    out = {}
    for r, w in rm.items():
        nr = tuple(c for c in r if c not in removed)
        if nr and w > 0:
            out[nr] = out.get(nr, Fraction(0)) + w
    return out


def fmt(rm):
    return {">".join(k): canon.fs(v) for k, v in sorted(rm.items())}


def _feasible_random_successor(r, rm, winners, piles, base, got, seam_log, cls_names):
    wset = set(winners)

    def fin(rk):
        return tuple(c for c in rk if c not in wset)

    base_final = {}
    for rk, wt in base.items():
        f = fin(rk)
        if f:
            base_final[f] = base_final.get(f, Fraction(0)) + wt
    target = {}
    for f in set(got) | set(base_final):
        d = got.get(f, Fraction(0)) - base_final.get(f, Fraction(0))
        if d < 0 or d.denominator != 1:
            raise Mismatch("random-successor", r, f"ballots after the round {fmt(got)} are not the untouched ballots {fmt(base_final)} plus whole transferred ballots")
        if d:
            target[f] = int(d)
    types = []
    need = {}
    real_choice = False
    for w, (pile, k) in piles.items():
        need[w] = k
        cnt = {}
        for b in pile:
            key = tuple(x[0] for x in b)
            cnt[key] = cnt.get(key, 0) + 1
        if 0 < k < len(pile) and len(cnt) >= 2:
            real_choice = True
        for key, n in sorted(cnt.items()):
            types.append((w, fin(key), n))

    def dfs(i, need, target):
        if i == len(types):
            return all(v == 0 for v in need.values()) and all(v == 0 for v in target.values())
        w, f, n = types[i]
        for x in range(min(n, need[w]), -1, -1):
            if f and target.get(f, 0) < x:
                continue
            need[w] -= x
            if f:
                target[f] = target.get(f, 0) - x
            ok = dfs(i + 1, need, target)
            need[w] += x
            if f:
                target[f] += x
            if ok:
                return True
        return False

    if not dfs(0, dict(need), dict(target)):
        raise Mismatch("random-successor", r, f"ballots after the round {fmt(got)} cannot be obtained by moving on {need} of the winners' transferable ballots")
    if real_choice:
        drew = [e for e in seam_log if e["ctx"] and e["ctx"][1] == r and e["ctx"][0] in cls_names and e["ctx"][2] and e["nt"]]
        if not drew:
            raise Mismatch("random-draw", r, "the surplus ballots were picked without any random draw although the choice was a real one")


class Mismatch(Exception):
    def __init__(self, clause, rnd, msg):
        super().__init__(f"[{clause}] round {rnd}: {msg}")
        self.clause = clause
        self.rnd = rnd
        self.msg = msg


def _transfer_entries(seam_log, rnd, cls_names):
    out = []
    for e in seam_log:
        if e["site"].endswith("random_transfer") and e["kind"] == "sample" and e["ctx"] and e["ctx"][1] == rnd and e["ctx"][0] in cls_names and e["ctx"][2]:
            out.append(e)
    return out


def check_run(election, profile, m, quota, simultaneous, kind, tiebreak, rec, seam_log, cls_names=("STV", "IRV", "SequentialRCV")):
    """Lock-step comparison of every recorded round.  kind in {'frac','seq','random'}.
    Returns (mismatch_or_None, info)."""
    info = {"rounds": 0, "kinds": [], "overflow": False, "elim_ties": 0, "top_ties": 0, "default": 0, "exact_thr": 0,
            "random_transfers": 0, "exhausted": 0, "multi_elect": 0}
    try:
        _check(election, profile, m, quota, simultaneous, kind, tiebreak, rec, seam_log, info, cls_names)
    except Mismatch as mm:
        return mm, info
    return None, info


def _check(e, profile, m, quota, simultaneous, kind, tiebreak, rec, seam_log, info, cls_names):
    N = profile.total_ballot_wt
    q = quota_value(N, m, quota)
    if e.threshold != q or not isinstance(e.threshold, int):
        raise Mismatch("threshold", 0, f"threshold {e.threshold!r} but formula gives {q} (N={N}, m={m}, {quota})")
    init_rm = canon.rmap(profile)
    cands0 = sorted(profile.candidates)
    init_fpv = tallies(init_rm, cands0)
    st = e.election_states
    s0 = st[0]
    if {c: Fraction(v) for c, v in s0.scores.items()} != init_fpv:
        raise Mismatch("tallies", 0, f"round-0 scores {canon.cscores(s0.scores)} but first-place weights are {canon.cscores(init_fpv)}")
    if cands0 and canon.cgroups(s0.remaining) != groups(init_fpv):
        raise Mismatch("order", 0, f"round-0 remaining {canon.cgroups(s0.remaining)} vs {groups(init_fpv)}")
    elected_so_far = []
    prev_out = None
    for r, (pin, prev_c, pout) in enumerate(rec, start=1):
        if r >= len(st):
            break
        s = st[r]
        info["rounds"] += 1
        rm = canon.rmap(pin)
        hop = sorted(pin.candidates)
        t = tallies(rm, hop)
        # the round works on the profile the previous round produced
        if prev_out is not None and (canon.rmap(prev_out) != rm or sorted(prev_out.candidates) != hop):
            raise Mismatch("chain", r, "input profile is not the previous round's output")
        if {c: Fraction(v) for c, v in prev_c["scores"].items()} != t:
            raise Mismatch("tallies", r, f"recorded tallies {prev_c['scores']} but first-place weights of the round's ballots are {canon.cscores(t)}")
        if hop and prev_c["remaining"] != groups(t):
            raise Mismatch("order", r, f"recorded order {prev_c['remaining']} vs {groups(t)}")
        over = [c for c in hop if t[c] >= q]
        seats_left = m - len(elected_so_far)
        el = canon.cgroups(s.elected)
        out_c = canon.cgroups(s.eliminated)
        tb = {tuple(k): v for k, v in canon.ctiebreaks(s.tiebreaks)}
        if over:
            if any(t[c] == q for c in over):
                info["exact_thr"] += 1
            if simultaneous:
                exp = [g for g in groups(t) if t[g[0]] >= q]
                if el != exp:
                    raise Mismatch("elect-simultaneous", r, f"elected {el} but candidates at/above threshold {q} are {exp} (tallies {canon.cscores(t)})")
                winners = list(over)
                if len(over) > seats_left:
                    info["overflow"] = True
                if len(over) > 1:
                    info["multi_elect"] += 1
                info["kinds"].append("E%d" % len(over))
            else:
                top = groups(t)[0]
                if len(top) > 1:
                    info["top_ties"] += 1
                    if tuple(top) not in tb:
                        raise Mismatch("elect-one", r, f"top tie {top} not recorded in tiebreaks {sorted(tb)}")
                    order = [x[0] for x in tb[tuple(top)] if len(x) == 1]
                    if sorted(order) != top:
                        raise Mismatch("elect-one", r, f"tiebreak resolution {tb[tuple(top)]} is not a strict order of {top}")
                    w = order[0]
                else:
                    w = top[0]
                if el != [[w]]:
                    raise Mismatch("elect-one", r, f"elected {el}, expected only the highest candidate {[w]} (tallies {canon.cscores(t)})")
                winners = [w]
                info["kinds"].append("e1")
            if out_c:
                raise Mismatch("elect-noelim", r, f"election round also eliminated {out_c}")
            base = {}
            for rk, wt in rm.items():
                if rk and rk[0] not in winners:
                    base[rk] = base.get(rk, Fraction(0)) + wt
            add = {}
            if kind in ("frac", "seq"):
                for rk, wt in rm.items():
                    if rk and rk[0] in winners:
                        tv = (t[rk[0]] - q) / t[rk[0]] if kind == "frac" else Fraction(1)
                        if wt * tv > 0:
                            add[rk] = wt * tv
            else:
                entries = _transfer_entries(seam_log, r, cls_names)
                used = [False] * len(entries)
                piles = {}
                fallback = False
                for w in sorted(winners):
                    pile = []
                    for rk, wt in sorted(rm.items()):
                        if rk and rk[0] == w and len(rk) > 1:
                            if wt.denominator != 1:
                                raise Mismatch("random-int", r, f"non-integer weight {wt} reached random transfer")
                            pile += [[[c] for c in rk[1:]]] * int(wt)
                    # surplus, capped by what can move on (after the random_transfer fix: all transferable ballots move)
                    k = min(int(t[w]) - q, len(pile))
                    piles[w] = (pile, k)
                    found = None
                    for i, en in enumerate(entries):
                        if used[i]:
                            continue
                        if en["pop"] and not all(isinstance(b, dict) and "r" in b for b in en["pop"]):
                            continue  # a draw over something else than ballots (e.g. indices): judged by feasibility below
                        pop = sorted([b["r"] for b in en["pop"]])
                        if pop == sorted(pile) and en["k"] == k:
                            found = i
                            break
                    if found is None and k == 0:
                        continue  # nothing to draw: an implementation may skip the (empty) draw altogether
                    if found is None:
                        ballot_draws = [en for i, en in enumerate(entries) if not used[i] and en["pop"] and all(isinstance(b, dict) and "r" in b for b in en["pop"])]
                        if ballot_draws:
                            raise Mismatch("random-draw", r, f"no draw of {k} from exactly the {len(pile)} transferable unit ballots of {w} was made (draws: {[(len(en['pop']), en['k']) for en in entries]})")
                        fallback = True
                        continue
                    used[found] = True
                    info["random_transfers"] += 1
                    for b in entries[found]["out"]:
                        rk = (w,) + tuple(x[0] for x in b["r"])
                        add[rk] = add.get(rk, Fraction(0)) + 1
                if fallback:
                    # the implementation does not draw ballots at the seam in a recognisable form (e.g. it samples indices):
                    # accept any successor that is the untouched ballots plus SOME sub-collection of each winner's
                    # transferable unit ballots of the right size -- and require that a draw was made at all whenever
                    # the choice was a real one (a deterministic pick is not a random transfer)
                    _feasible_random_successor(r, rm, winners, piles, base, canon.rmap(pout), seam_log, cls_names)
                    info["random_transfers"] += len(winners)
                    add = None
                else:
                    # left-over draws: empty ones (k = 0) and opaque ones are harmless; a second real draw of ballots is not
                    extra = [en for i, en in enumerate(entries) if not used[i] and en["k"] > 0 and en["pop"] and all(isinstance(b, dict) and "r" in b for b in en["pop"])]
                    if extra:
                        raise Mismatch("random-draw", r, f"more transfer draws than winners: {[(len(en['pop']), en['k']) for en in extra]}")
            if add is None:
                new = canon.rmap(pout)
                before = None
            else:
                merged = dict(base)
                for rk, wt in add.items():
                    merged[rk] = merged.get(rk, Fraction(0)) + wt
                before = sum(merged.values(), Fraction(0))
                new = strip(merged, winners)
                if sum(new.values(), Fraction(0)) != before:
                    info["exhausted"] += 1
            newhop = [c for c in hop if c not in winners]
            elected_so_far += winners
        elif len(hop) == seats_left:
            info["default"] += 1
            info["kinds"].append("D%d" % len(hop))
            if el != prev_c["remaining"] and el != groups(t):
                raise Mismatch("default-elect", r, f"elected {el}, expected all remaining {groups(t)}")
            if out_c:
                raise Mismatch("default-elect", r, f"default election also eliminated {out_c}")
            winners = list(hop)
            elected_so_far += winners
            new = {}
            newhop = []
        else:
            if not hop:
                raise Mismatch("no-candidates", r, "round run with no hopeful candidates")
            low = groups(t)[-1]
            if len(low) > 1:
                info["elim_ties"] += 1
                if tuple(low) not in tb:
                    raise Mismatch("eliminate-tie", r, f"lowest tie {low} not recorded in tiebreaks {sorted(tb)}")
                order = [x[0] for x in tb[tuple(low)] if len(x) == 1]
                if sorted(order) != low:
                    raise Mismatch("eliminate-tie", r, f"resolution {tb[tuple(low)]} is not a strict order of {low}")
                x = order[-1]
                mn = min(init_fpv[c] for c in low)
                if init_fpv[x] != mn:
                    raise Mismatch("eliminate-tie", r, f"eliminated {x} (initial first-place {init_fpv[x]}) though {[c for c in low if init_fpv[c] == mn]} have the lowest initial tally {mn}")
                if any(init_fpv[a] < init_fpv[b] for a, b in zip(order, order[1:])):
                    raise Mismatch("eliminate-tie", r, f"recorded order {order} not by initial first-place tallies")
                info["kinds"].append("xT")
            else:
                x = low[0]
                info["kinds"].append("x")
            if out_c != [[x]] or el:
                raise Mismatch("eliminate", r, f"eliminated {out_c} elected {el}; expected exactly one lowest candidate {x} (tallies {canon.cscores(t)})")
            before = sum(rm.values(), Fraction(0))
            new = strip(rm, [x])
            if sum(new.values(), Fraction(0)) != before:
                info["exhausted"] += 1
            newhop = [c for c in hop if c != x]
        got = canon.rmap(pout)
        if got != new:
            raise Mismatch("successor", r, f"ballots after the round {fmt(got)} but the documented step gives {fmt(new)}")
        if sorted(pout.candidates) != sorted(newhop):
            raise Mismatch("successor-cands", r, f"candidates after the round {sorted(pout.candidates)} vs {sorted(newhop)}")
        nt = tallies(new, newhop)
        if {c: Fraction(v) for c, v in s.scores.items()} != nt:
            raise Mismatch("tallies", r, f"reported tallies {canon.cscores(s.scores)} vs first-place weights {canon.cscores(nt)}")
        if newhop and canon.cgroups(s.remaining) != groups(nt):
            raise Mismatch("order", r, f"reported order {canon.cgroups(s.remaining)} vs {groups(nt)}")
        if e.threshold != q:
            raise Mismatch("threshold", r, "threshold changed during the count")
        prev_out = pout
        if info["overflow"]:
            break
    if e.threshold != q:
        raise Mismatch("threshold", len(rec), "threshold changed during the count")
