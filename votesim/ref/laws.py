"""Closed-form laws of the ballot models by direct enumeration (<= 6 candidates). Floats; used only as
the reference side of statistical tests and of the MCMC stationarity check."""
import itertools as it
import math


def pl_prob(order, w):
    """probability that successive sampling without replacement from weights w lists `order` first"""
    rest = sum(w.values())
    p = 1.0
    for c in order:
        p *= w[c] / rest
        rest -= w[c]
    return p


def pl_law(w):
    cands = [c for c in w if w[c] > 0]
    return {perm: pl_prob(perm, w) for perm in it.permutations(cands)}


def pl_prefix_law(w, k):
    cands = [c for c in w if w[c] > 0]
    return {perm: pl_prob(perm, w) for perm in it.permutations(cands, k)}


def bt_law(w):
    cands = [c for c in w if w[c] > 0]
    raw = {}
    for perm in it.permutations(cands):
        p = 1.0
        for i in range(len(perm)):
            for j in range(i + 1, len(perm)):
                p *= w[perm[i]] / (w[perm[i]] + w[perm[j]])
        raw[perm] = p
    tot = sum(raw.values())
    return {k: v / tot for k, v in raw.items()}


def multinomial_law(w, n):
    """law of the count vector of n draws with replacement; cells = tuple(sorted((cand,count) for count>0))"""
    cands = [c for c in w if w[c] > 0]
    tot = sum(w[c] for c in cands)
    out = {}

    def rec(i, left, acc, p):
        if i == len(cands) - 1:
            cnt = acc + [left]
            pp = p * (w[cands[i]] / tot) ** left / math.factorial(left)
            out[tuple((c, k) for c, k in zip(cands, cnt) if k > 0)] = pp * math.factorial(n)
            return
        for k in range(left + 1):
            rec(i + 1, left - k, acc + [k], p * (w[cands[i]] / tot) ** k / math.factorial(k))

    if cands:
        rec(0, n, [], 1.0)
    return {tuple(sorted(k)): v for k, v in out.items()}


def slate_pl_type_law(sizes, cohesion):
    """slate-PlackettLuce ballot types: repeated cohesion-weighted draws of a slate, renormalised over the slates
    not yet used up; when only zero-cohesion slates remain the rest is a uniformly random arrangement.
    sizes: {slate: number of supported candidates}; cohesion: {slate: weight}"""
    out = {}

    def rec(prefix, left, p):
        if all(v == 0 for v in left.values()):
            out[tuple(prefix)] = out.get(tuple(prefix), 0.0) + p
            return
        avail = [s for s in left if left[s] > 0]
        tot = sum(cohesion[s] for s in avail)
        if tot == 0:
            # uniformly random arrangement of what is left
            pool = [s for s in avail for _ in range(left[s])]
            perms = set(it.permutations(pool))
            for perm in perms:
                out[tuple(prefix) + perm] = out.get(tuple(prefix) + perm, 0.0) + p / len(perms)
            return
        for s in avail:
            if cohesion[s] > 0:
                nl = dict(left)
                nl[s] -= 1
                rec(prefix + [s], nl, p * cohesion[s] / tot)

    rec([], {s: n for s, n in sizes.items() if n > 0}, 1.0)
    return out


def slate_bt_type_law(bloc, opp, n_own, n_opp, c):
    pool = [bloc] * n_own + [opp] * n_opp
    raw = {}
    for t in set(it.permutations(pool)):
        succ = sum(t[i + 1 :].count(opp) for i, b in enumerate(t) if b == bloc)
        raw[t] = (c ** succ) * ((1 - c) ** (n_own * n_opp - succ))
    tot = sum(raw.values())
    return {k: v / tot for k, v in raw.items()}


def compose_slate_law(type_law, orders_by_slate):
    """full ranking law = type law x independent within-slate order laws.
    orders_by_slate: {slate: {order tuple: prob}}"""
    out = {}
    slates = list(orders_by_slate)
    for t, pt in type_law.items():
        for combo in it.product(*[orders_by_slate[s].items() for s in slates]):
            p = pt
            pos = {}
            for s, (order, po) in zip(slates, combo):
                p *= po
                pos[s] = list(order)
            ranking = []
            ok = True
            for s in t:
                if not pos.get(s):
                    ok = False
                    break
                ranking.append(pos[s].pop(0))
            if ok:
                out[tuple(ranking)] = out.get(tuple(ranking), 0.0) + p
    return out
