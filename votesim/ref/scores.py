"""Exact reference tallies on JSON profiles (Fractions, no votekit code): positional scores with tied
positions and unlisted candidates, score-ballot totals, pairwise margins and the Smith set."""
from fractions import Fraction


def positional(jp, vector):
    """score of each candidate under a positional vector (shorter vectors are padded with 0)"""
    cands = list(jp["candidates"])
    n = len(cands)
    vec = [Fraction(v) for v in vector] + [Fraction(0)] * max(0, n - len(vector))
    sc = {c: Fraction(0) for c in cands}
    for b in jp["ballots"]:
        if b.get("r") is None:
            continue
        w = Fraction(b["w"])
        pos = 0
        listed = set()
        for grp in b["r"]:
            k = len(grp)
            share = sum(vec[pos : pos + k], Fraction(0)) / k
            for c in grp:
                sc[c] += share * w
                listed.add(c)
            pos += k
        rest = [c for c in cands if c not in listed]
        if rest:
            share = sum(vec[pos : pos + len(rest)], Fraction(0)) / len(rest)
            for c in rest:
                sc[c] += share * w
    return sc


def fpv(jp):
    return positional(jp, [1])


def borda(jp, vector=None):
    n = len(jp["candidates"])
    return positional(jp, vector if vector is not None else list(range(n, 0, -1)))


def score_totals(jp):
    sc = {c: Fraction(0) for c in jp["candidates"]}
    for b in jp["ballots"]:
        for c, v in (b.get("s") or {}).items():
            sc[c] += Fraction(v) * Fraction(b["w"])
    return sc


def groups(t, high_low=True):
    vals = sorted(set(t.values()), reverse=high_low)
    return [sorted(c for c in t if t[c] == v) for v in vals]


def straddle(t, m):
    """the tied group that straddles seat m in the descending order of t, or None"""
    cnt = 0
    for g in groups(t):
        if cnt < m < cnt + len(g):
            return g
        cnt += len(g)
        if cnt >= m:
            return None
    return None


def top_m_sets(t, m):
    """(certain winners, tied boundary group or None)"""
    cnt = 0
    sure = []
    for g in groups(t):
        if cnt + len(g) <= m:
            sure += g
            cnt += len(g)
            if cnt == m:
                return sure, None
        else:
            return sure, g
    return sure, None


def margins(jp):
    """net head-to-head margin a over b: listed beats unlisted; unlisted pairs and tied pairs split evenly"""
    cands = list(jp["candidates"])
    mg = {(a, b): Fraction(0) for a in cands for b in cands if a != b}
    for bl in jp["ballots"]:
        if bl.get("r") is None:
            continue
        w = Fraction(bl["w"])
        rank = {}
        for i, grp in enumerate(bl["r"]):
            for c in grp:
                rank.setdefault(c, i)
        big = len(bl["r"]) + 1
        for a in cands:
            for b in cands:
                if a != b and rank.get(a, big) < rank.get(b, big):
                    mg[(a, b)] += w
                    mg[(b, a)] -= w
    return mg


def _smith(cands, mg):
    def cope(c):
        return sum((2 if mg[(c, d)] > 0 else 1 if mg[(c, d)] == 0 else 0) for d in cands if d != c)

    best = max(cands, key=lambda c: (cope(c), c))
    S = {best}
    changed = True
    while changed:
        changed = False
        for y in cands:
            if y not in S and any(not (mg[(x, y)] > 0) for x in S):
                S.add(y)
                changed = True
    return sorted(S)


def smith_set(jp):
    cands = list(jp["candidates"])
    if not cands:
        return []
    return _smith(cands, margins(jp))


def tiers(jp):
    """dominating tiers: iterated Smith sets"""
    cands = list(jp["candidates"])
    mg = margins(jp)
    out = []
    while cands:
        t = _smith(cands, mg)
        out.append(t)
        cands = [c for c in cands if c not in t]
    return out
