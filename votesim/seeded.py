"""Evaluate the seeded changes kept under /verif/seeded/<id>/ (patch.diff + demo + meta.json).

For each one: copy /repo/src to a scratch directory under $TMPDIR, apply the patch there, confirm the
demonstration fails on the patched copy and passes on the real tree, then run the listed checks against
the patched copy (VOTEKIT_SRC / VOTESIM_OUT) and report which of them raise a VIOLATION.
Nothing is ever applied to /repo itself, so this can run while other checks use /repo.

usage: python -m votesim.seeded [name ...] [--checks C01,C02] [--runs N] [--all-checks]
"""
import json
import os
import shutil
import subprocess
import sys
import tempfile

from .core.boot import VERIF

SEEDED = os.path.join(VERIF, "seeded")
ALL = ["C01", "C02", "C03", "C07", "C08", "C09", "C10", "C13", "C14", "C16", "C17", "C18"]


def run_demo(demo, src):
    env = dict(os.environ, PYTHONPATH=src + os.pathsep + os.path.join(VERIF, "stubs"), MPLBACKEND="Agg")
    p = subprocess.run(["/venv/bin/python", demo], env=env, capture_output=True, text=True, timeout=900, cwd=os.path.dirname(demo))
    return p.returncode, (p.stdout + p.stderr)[-400:]


def evaluate(name, checks=None, runs=None):
    d = os.path.join(SEEDED, name)
    meta = json.load(open(os.path.join(d, "meta.json")))
    scratch = tempfile.mkdtemp(prefix="vk-seeded-")
    out = {"name": name, "property": meta["property"]}
    try:
        root = os.path.join(scratch, "repo")
        os.makedirs(root)
        shutil.copytree("/repo/src", os.path.join(root, "src"), ignore=shutil.ignore_patterns("__pycache__"))
        p = subprocess.run(["patch", "-p1", "-d", root, "-i", os.path.join(d, "patch.diff")], capture_output=True, text=True)
        if p.returncode != 0:
            out["error"] = "patch does not apply: " + p.stdout[-300:]
            return out
        src = os.path.join(root, "src")
        demo = os.path.join(d, meta.get("demo", "demo.py"))
        out["demo_on_patched"] = run_demo(demo, src)[0]
        out["demo_on_clean"] = run_demo(demo, "/repo/src")[0]
        flagged = {}
        for c in checks or meta.get("checks", [meta["property"]]):
            cmd = [os.path.join(VERIF, "check"), c, "--tier", "quick"] + (["--runs", str(runs)] if runs else [])
            r = subprocess.run(cmd, env=dict(os.environ, VOTEKIT_SRC=src, VOTESIM_OUT=scratch), capture_output=True, text=True)
            lines = [ln for ln in r.stdout.splitlines() if ln.startswith("VIOLATION") or ln.startswith("  sig=")]
            flagged[c] = {"rc": r.returncode, "first": lines[1][:300] if len(lines) > 1 else ""}
        out["checks"] = flagged
        return out
    finally:
        shutil.rmtree(scratch, ignore_errors=True)


def main(argv):
    names, checks, runs = [], None, None
    it = iter(argv)
    for a in it:
        if a == "--checks":
            checks = next(it).split(",")
        elif a == "--all-checks":
            checks = ALL
        elif a == "--runs":
            runs = int(next(it))
        else:
            names.append(a)
    names = names or sorted(n for n in os.listdir(SEEDED) if os.path.isdir(os.path.join(SEEDED, n)))
    res = []
    for n in names:
        r = evaluate(n, checks, runs)
        res.append(r)
        caught = [c for c, v in r.get("checks", {}).items() if v["rc"] == 1]
        print(f"{n}: property={r['property']} demo(patched)={r.get('demo_on_patched')} demo(clean)={r.get('demo_on_clean')} caught_by={caught} "
              f"others={ {c: v['rc'] for c, v in r.get('checks', {}).items() if v['rc'] != 1} } {r.get('error', '')}")
        for c in caught:
            print(f"    {c}: {r['checks'][c]['first']}")
    return 0


if __name__ == "__main__":
    sys.exit(main(sys.argv[1:]))
